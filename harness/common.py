"""Shared plumbing of the checks: run context, scratch space, evidence files,
replay files, known findings, parallel driving."""
import atexit
import json
import multiprocessing
import os
import random
import shutil
import sys
import tempfile
import time

VERIF = os.path.dirname(os.path.dirname(os.path.abspath(__file__)))
# where evidence/ and replays/ are written; overridden when a check is pointed at a scratch copy of
# the repository (seeded-change experiments) so that the committed evidence is not overwritten
OUT = os.environ.get("VERIF_OUT", VERIF)
REPO = os.environ.get("GWF_REPO", "/repo")
REPO_SRC = os.path.join(REPO, "src")
NPROC = min(16, os.cpu_count() or 4)


class Machinery(Exception):
    """The check itself is broken (exit 2), as opposed to a property violation."""


def assert_repo_import():
    import gwf

    here = os.path.realpath(os.path.dirname(gwf.__file__))
    want = os.path.realpath(os.path.join(REPO_SRC, "gwf"))
    if here != want:
        raise Machinery("gwf imported from %s, expected %s" % (here, want))


class Ctx:
    def __init__(self, pid, tier, seed):
        self.pid = pid
        self.tier = tier
        self.seed = seed
        self.t0 = time.time()
        self.rng = random.Random(seed * 7919 + sum(map(ord, pid)))
        base = os.environ.get("TMPDIR") or "/tmp"
        self.scratch = tempfile.mkdtemp(prefix="gwfverif-%s-" % pid, dir=base)
        atexit.register(shutil.rmtree, self.scratch, True)
        self.violations = []  # dicts: clauses, scenario, observed, note
        self.cov = {
            "states": 0,
            "transitions": 0,
            "traces_validated_against_impl": 0,
            "evaluations": 0,
            "distinct_nontrivial": 0,
            "samples": [],
            "rule": "",
            "design_checks": [],
            "spec_actions_covered": {},
        }
        self.assumptions = []
        self.thorough = tier == "thorough"

    def phase(self, name):
        now = time.time()
        print("[%s %6.1fs] %s" % (self.pid, now - self.t0, name), file=sys.stderr, flush=True)

    def q(self, quick, thorough):
        return thorough if self.thorough else quick

    def tmp(self, name):
        return os.path.join(self.scratch, name)

    def add_design(self, name, res, constants=""):
        """Record a TLC design-check run in the evidence."""
        self.cov["states"] += res.distinct
        self.cov["transitions"] += res.generated
        self.cov["design_checks"].append(
            {
                "config": name,
                "constants": constants,
                "states_generated": res.generated,
                "distinct_states": res.distinct,
                "depth": res.depth,
                "wall_s": round(res.wall, 1),
            }
        )
        for k, v in res.coverage.items():
            self.cov["spec_actions_covered"][k] = self.cov["spec_actions_covered"].get(k, 0) + v[1]

    def violation(self, clauses, scenario, observed=None, note=""):
        self.violations.append(
            {"property": self.pid, "clauses": sorted(clauses), "scenario": scenario, "observed": observed, "note": note}
        )


class GwfTimeout(Exception):
    """The code under test did not return in time (reported as an observation, e.g. non-termination)."""


class time_limit:
    """with time_limit(60): ...  - SIGALRM based, for calls into the code under test (main thread only)."""

    def __init__(self, seconds):
        self.seconds = seconds
        self.fired = False     # stays True even if the exception was swallowed by the code under test

    def _fire(self, signum, frame):
        self.fired = True
        raise GwfTimeout("no result within %ds" % self.seconds)

    def __enter__(self):
        import signal

        self.old = signal.signal(signal.SIGALRM, self._fire)
        signal.alarm(self.seconds)

    def __exit__(self, *exc):
        import signal

        signal.alarm(0)
        signal.signal(signal.SIGALRM, self.old)
        return False


def _worker_init():
    # a runaway loop in the code under test must not exhaust the machine: cap each worker's memory
    import resource

    lim = 6 * 1024**3
    try:
        soft, hard = resource.getrlimit(resource.RLIMIT_AS)
        resource.setrlimit(resource.RLIMIT_AS, (lim, hard))      # soft limit only: TLC lifts it again
    except (ValueError, OSError):
        pass


def pmap(fn, items, procs=NPROC, chunk=None):
    items = list(items)
    if not items:
        return []
    if procs <= 1 or len(items) < 4:
        return [fn(x) for x in items]
    ctx = multiprocessing.get_context("fork")
    with ctx.Pool(min(procs, len(items)), initializer=_worker_init) as pool:
        return pool.map(fn, items, chunksize=chunk or max(1, len(items) // (procs * 8)))


# --------------------------------------------------------------------------
# known findings


def load_findings():
    path = os.path.join(VERIF, "known_findings.json")
    try:
        with open(path) as f:
            return json.load(f)
    except FileNotFoundError:
        return {"open": [], "fixed": []}


def _get(d, dotted):
    cur = d
    for part in dotted.split("."):
        if isinstance(cur, dict) and part in cur:
            cur = cur[part]
        else:
            return None
    return cur


def _match_value(actual, want):
    if isinstance(want, dict):
        if "ge" in want and not (isinstance(actual, (int, float)) and actual >= want["ge"]):
            return False
        if "in" in want and actual not in want["in"]:
            return False
        if "contains" in want and not (isinstance(actual, (list, str)) and want["contains"] in actual):
            return False
        return True
    return actual == want


def finding_for(v, findings):
    """Return the open finding that explains violation v, or None.

    A finding matches when the violation is for its property, every failing
    clause is one the finding lists, and every structural condition on the
    scenario holds.  Nothing is ever muted per property wholesale."""
    for f in findings.get("open", []):
        if f["property"] != v["property"]:
            continue
        m = f["match"]
        if not set(v["clauses"]) <= set(m["clauses"]):
            continue
        if all(_match_value(_get(v["scenario"], k), want) for k, want in m.get("scenario", {}).items()):
            return f
    return None


# --------------------------------------------------------------------------
# finishing a check


def finish(ctx, level="model_checking"):
    findings = load_findings()
    unexplained, known = [], {}
    for v in ctx.violations:
        f = finding_for(v, findings)
        if f is None:
            unexplained.append(v)
        else:
            known.setdefault(f["id"], (f, 0))
            known[f["id"]] = (f, known[f["id"]][1] + 1)
    for fid, (f, n) in sorted(known.items()):
        print("KNOWN-FINDING: property=%s %s [%s, %d case(s) this run]" % (f["property"], f["what"], fid, n))
    rep_dir = os.path.join(OUT, "replays")
    os.makedirs(rep_dir, exist_ok=True)
    # group identical clause sets so a systematic failure prints a few lines, not thousands
    shown = {}
    for v in unexplained:
        key = tuple(v["clauses"])
        shown.setdefault(key, []).append(v)
    n = 0
    for key, vs in sorted(shown.items()):
        for v in vs[:3]:
            n += 1
            path = os.path.join(rep_dir, "%s-%d.json" % (ctx.pid, n))
            with open(path, "w") as fh:
                json.dump(v, fh, indent=1, sort_keys=True, default=str)
            print("VIOLATION property=%s replay=%s clauses=%s" % (ctx.pid, path, ",".join(key)))
        if len(vs) > 3:
            print("  (+%d more with clauses %s)" % (len(vs) - 3, ",".join(key)))
    cov = ctx.cov
    cov["samples"] = cov["samples"][:6]
    ev = {
        "property_id": ctx.pid,
        "tier": ctx.tier,
        "seed": ctx.seed,
        "level": level,
        "coverage": cov,
        "assumptions": ctx.assumptions,
        "wall_s": round(time.time() - ctx.t0, 2),
        "violations": len(unexplained),
        "known_findings_hit": {k: n for k, (f, n) in known.items()},
    }
    os.makedirs(os.path.join(OUT, "evidence"), exist_ok=True)
    with open(os.path.join(OUT, "evidence", ctx.pid + ".json"), "w") as fh:
        json.dump(ev, fh, indent=1, sort_keys=True, default=str)
    print(
        "%s %s: %d design states, %d impl traces validated, %d violations, %.1fs"
        % (ctx.pid, ctx.tier, cov["states"], cov["traces_validated_against_impl"], len(unexplained), ev["wall_s"])
    )
    return 1 if unexplained else 0


def _no_null(x):
    # TLC's JSON reader has no value for null
    if x is None:
        return "null"
    if isinstance(x, dict):
        return {k: _no_null(v) for k, v in x.items()}
    if isinstance(x, (list, tuple)):
        return [_no_null(v) for v in x]
    return x


def dump_json(path, obj):
    with open(path, "w") as f:
        json.dump(_no_null(obj), f, separators=(",", ":"))
