"""Probe of assumption A4 (one gwf invocation at a time): GwfConcurrent.tla says what two concurrent
`gwf run` processes do to the tracked-jobs file; TLC enumerates every schedule, the driver imposes each one
on two real gwf processes (the simulated scheduler commands block on a barrier) and TLC validates what was
recorded.  Informational: no listed property quantifies over concurrent invocations, so nothing here can
raise a VIOLATION; the numbers go into the evidence of C09."""
import json
import os
import random
import subprocess
import sys
import time

from . import tlc
from .common import Machinery, dump_json, pmap
from .props import cli_defs
from .sandbox import parse_submission

SELS = {"SelBoth": {"p1": ["A", "B"], "p2": ["A", "B"]}, "SelSplit": {"p1": ["A"], "p2": ["B"]}, "SelOverlap": {"p1": ["A", "B"], "p2": ["B"]}}
NAMES = {"A": "alpha", "B": "bravo"}
FIRST_ID = 1000


def cfg_text(head, sel, serial):
    return head + 'CONSTANTS\n Targets = {"A", "B"}\n Procs = {"p1", "p2"}\n Sel <- %s\n Serial = %s\n' % (sel, "TRUE" if serial else "FALSE")


def design(ctx):
    """Serial (A4) must satisfy both invariants; without A4 TLC must exhibit the duplicate and the lost update."""
    out = {}
    head = open(os.path.join(tlc.SPEC_DIR, "GwfConcurrent_mc.cfg")).read()
    for name, sel, serial, expect in (("serial", "SelBoth", True, None), ("free-both", "SelBoth", False, "NoDuplicateLive"),
                                      ("free-split", "SelSplit", False, "LiveJobsTracked")):
        cfg = ctx.tmp("conc-%s-%d.cfg" % (name, random.getrandbits(32)))
        open(cfg, "w").write(cfg_text(head, sel, serial))
        res = tlc.run_tlc("GwfConcurrent", cfg, workers=2, scratch=ctx.scratch, allow_violation=True)
        if res.violated != expect:
            raise Machinery("GwfConcurrent %s: expected %s, TLC says %s\n%s" % (name, expect or "no violation", res.violated, res.errtext))
        out[name] = {"distinct_states": res.distinct, "result": "violates %s (expected: A4 is necessary)" % expect if expect else "invariants hold under A4"}
    return out


def inductive(ctx):
    """Unbounded-length argument with Apalache: an inductive invariant of GwfConcurrent under A4 implies both
    properties (spec/apalache/MC_GwfConcurrentInd.tla); the same obligation without A4 must fail."""
    import shutil
    import subprocess
    import tempfile

    exe = shutil.which("apalache-mc")
    if not exe:
        return {"skipped": "apalache-mc not on PATH"}
    d = os.path.join(tlc.SPEC_DIR, "apalache")
    out = tempfile.mkdtemp(prefix="apa-", dir=ctx.scratch)
    res = {}
    try:
        for name, init, inv, length in (("Init=>IndInv", "Init", "IndInv", 0), ("IndInv/\\Next=>IndInv'", "IndInit", "IndInv", 1),
                                        ("IndInv=>Safety", "IndInit", "Safety", 0)):
            p = subprocess.run([exe, "check", "--init=" + init, "--inv=" + inv, "--length=%d" % length, "--out-dir=" + out, "MC_GwfConcurrentInd.tla"],
                               cwd=d, stdout=subprocess.PIPE, stderr=subprocess.STDOUT, text=True, timeout=600)
            res[name] = "proved" if "The outcome is: NoError" in p.stdout else "NOT proved"
    finally:
        shutil.rmtree(out, ignore_errors=True)
    return res


def gen(ctx, sel):
    cfg = ctx.tmp("concgen-%d.cfg" % random.getrandbits(32))
    open(cfg, "w").write(cfg_text("INIT GInit\nNEXT GNext\nINVARIANT Emit\nCHECK_DEADLOCK FALSE\n", sel, False))
    res = tlc.run_tlc("GwfConcurrentGen", cfg, workers=1, scratch=ctx.scratch)
    return [v for v in res.values if isinstance(v, dict) and "hist" in v]


class Proc:
    def __init__(self, tag, popen):
        self.tag, self.p, self.k, self.at, self.done, self.began = tag, popen, 0, None, False, True


def drive(item):
    rid, selname, hist, variant = item
    sb = cli_defs.sandbox()
    sb.reset(first_id=FIRST_ID)
    inv = {v: k for k, v in NAMES.items()}
    sb.write("workflow.py", "from gwf import Workflow\ngwf = Workflow()\n" + "".join("gwf.target(%r, inputs=[], outputs=[]) << 'true'\n" % NAMES[t] for t in ("A", "B")))
    sb.write(".gwfconf.json", json.dumps({"backend": "slurm", "backend.slurm.accounting_enabled": False}))
    bar = os.path.join(sb.ctl, "barrier")
    os.makedirs(bar)
    procs, events, issued = {}, [], []
    sb.new_calls()

    def tracked():
        try:
            d = json.load(open(sb.path(".gwf/slurm-backend-tracked.json")))
        except (FileNotFoundError, ValueError):
            d = {}
        return {t: (int(d[NAMES[t]]) - FIRST_ID + 1 if NAMES[t] in d else 0) for t in ("A", "B")}

    def arrival(pr, limit=60):
        """Next scheduler command of the process (it stays blocked), or None when the process has exited."""
        t0 = time.time()
        want = "arrived.%s.%d." % (pr.tag, pr.k + 1)
        while True:
            hit = [f for f in os.listdir(bar) if f.startswith(want)]
            if hit:
                return hit[0][len(want):]
            if pr.p.poll() is not None:
                return None
            if time.time() - t0 > limit:
                raise Machinery("concurrent probe: process %s neither called the scheduler nor exited" % pr.tag)
            time.sleep(0.005)

    def release(pr):
        pr.k += 1
        open(os.path.join(bar, "go.%s.%d" % (pr.tag, pr.k)), "w").close()

    def to_submit(pr):
        """Let the process run until it is about to submit (True) or has exited (False)."""
        while True:
            a = arrival(pr)
            if a is None:
                return False
            if a == "sbatch":
                return True
            release(pr)

    def finish(pr):
        pr.done = True
        events.append({"act": "End", "p": pr.tag, "t": "", "id": 0, "exit": pr.p.wait(), "file": tracked()})

    def step(pr):
        """One move of the process: a submission if it has one left, otherwise its end."""
        if pr.done:
            return
        if not to_submit(pr):
            return finish(pr)
        release(pr)
        more = arrival(pr)          # the next call (or the exit) proves that the file has been rewritten
        new = [parse_submission(c) for c in sb.new_calls() if c["cmd"] == "sbatch"]
        for c in new:
            issued.append(c["id"])
            sb.render(squeue=[(i, "PD") for i in issued])     # every accepted job stays pending
            events.append({"act": "Submit", "p": pr.tag, "t": inv.get(c["name"], "?"), "id": int(c["id"]) - FIRST_ID + 1, "exit": 0, "file": tracked()})
        if more is None:
            finish(pr)

    try:
        for h in hist:
            tag = h["p"]
            if h["act"] == "Begin":
                e = sb.env()
                e.update(GWFV_BARRIER=bar, GWFV_TAG=tag)
                po = subprocess.Popen([sys.executable, "-c", "from gwf.cli import main; main()", "run"] + [NAMES[t] for t in SELS[selname][tag]],
                                      cwd=sb.proj, env=e, stdout=subprocess.DEVNULL, stderr=subprocess.PIPE)
                pr = procs[tag] = Proc(tag, po)
                if arrival(pr) is None:       # the tracked file has been read once the first query is announced
                    events.append({"act": "Begin", "p": tag, "t": "", "id": 0, "exit": 0, "file": tracked()})
                    finish(pr)
                else:
                    events.append({"act": "Begin", "p": tag, "t": "", "id": 0, "exit": 0, "file": tracked()})
            elif tag in procs:
                step(procs[tag])
        for pr in procs.values():
            while not pr.done:
                step(pr)
    finally:
        for pr in procs.values():
            if pr.p.poll() is None:
                pr.p.kill()
                pr.p.wait()
    return {"id": rid, "sel": selname, "schedule": hist, "events": events}


def validate(ctx, recs):
    out = {}
    by = {}
    for r in recs:
        by.setdefault(r["sel"], []).append(r)
    for sel, rs in by.items():
        path = ctx.tmp("conctrace-%s-%d.json" % (sel, random.getrandbits(32)))
        dump_json(path, rs)
        cfg = path + ".cfg"
        open(cfg, "w").write(cfg_text("SPECIFICATION TraceSpec\nINVARIANT Verdict\nCHECK_DEADLOCK FALSE\n", sel, False))
        res = tlc.run_tlc("GwfConcurrentTrace", cfg, env={"TRACE_FILE": path}, scratch=ctx.scratch)
        for v in res.values:
            if isinstance(v, dict) and "failed" in v and "id" in v:
                out[v["id"]] = v
    if len(out) != len(recs):
        raise Machinery("GwfConcurrentTrace gave %d verdicts for %d traces" % (len(out), len(recs)))
    return out


def probe(ctx, sels=("SelBoth", "SelSplit", "SelOverlap"), limit=None):
    info = {"design": design(ctx)}
    if ctx.thorough:
        info["apalache_inductive_invariant_under_A4"] = inductive(ctx)
    items = []
    for sel in sels:
        scheds = gen(ctx, sel)
        rng = random.Random(ctx.seed)
        rng.shuffle(scheds)
        for s in scheds[:limit]:
            items.append((len(items), sel, s["hist"], ctx.seed))
    recs = pmap(drive, items, chunk=2)
    ver = validate(ctx, recs)
    info["schedules_driven"] = len(recs)
    info["accepted_by_GwfConcurrentTrace"] = sum(1 for v in ver.values() if not v["failed"])
    info["real_runs_with_duplicate_jobs"] = sum(1 for v in ver.values() if v["dup"])
    info["real_runs_with_lost_update"] = sum(1 for v in ver.values() if v["lost"])
    rej = [dict(ver[r["id"]], sel=r["sel"], events=r["events"]) for r in recs if ver[r["id"]]["failed"]]
    info["rejected_samples"] = rej[:3]
    return info
