"""C20: generate (ConfigGen), drive `gwf config` histories and settings-in-effect
scenarios on real projects, validate (ConfigTrace)."""
import json
import os
import pty
import random
import re
import socket
import subprocess
import sys
import threading

from . import defs, tlc
from .common import Machinery, dump_json
from .props import cli_defs
from .sandbox import parse_submission

RAW = {
    "r42": "42", "rneg7": "-7", "r007": "007", "r0": "0", "ryes": "yes", "rtrue": "true", "rno": "no", "rfalse": "false",
    "rYes": "Yes", "rTrue": "True", "rFALSE": "FALSE", "rempty": "", "rhello": "hello", "rspaces": "hello big world",
    "rjson": '{"a": 1}', "rinfo": "info", "r4x": "4x", "rfloat": "1.5", "rmerged": "merged", "rdebug": "debug",
    "rn": "n", "ry": "y", "rals": "als", "rru": "ru", "rnone": "none", "ryesno": "yesno",
}
WF = "from gwf import Workflow\ngwf = Workflow()\ngwf.target('one', inputs=[], outputs=['o1']) << 'echo one'\n"


def gen(ctx, MaxOps, Sample):
    cfg = ctx.tmp("ConfigGen-%d.cfg" % random.getrandbits(32))
    defs.write_cfg(cfg, dict(MaxOps=MaxOps, Sample=Sample))
    with open(cfg, "a") as f:
        f.write("INIT Init\nNEXT GNext\nCHECK_DEADLOCK FALSE\n")
    res = tlc.run_tlc("ConfigGen", cfg, seed=ctx.seed, timeout=900, scratch=ctx.scratch)
    if not res.values:
        raise Machinery("ConfigGen produced nothing")
    return res.values


def typed_file(sb):
    raw = sb.read_json(".gwfconf.json")
    if raw is None:
        return {}
    if not isinstance(raw, dict):
        return {"?": {"t": "unreadable", "v": 0}}
    out = {}
    for k, v in raw.items():
        if isinstance(v, bool):
            out[k] = {"t": "bool", "v": v}
        elif isinstance(v, int):
            out[k] = {"t": "int", "v": v}
        elif isinstance(v, str):
            out[k] = {"t": "str", "v": v}
        else:
            out[k] = {"t": type(v).__name__, "v": 0}
    return out


FLAGS = [["-b", "slurm"], ["-b", "local"], ["-b", "sge"], ["-v", "debug"], ["-v", "warning"], ["--no-color"]]


def drive_ops(item):
    rid, scn, variant = item
    sb = cli_defs.sandbox()
    sb.reset()
    sb.write("workflow.py", WF)
    sub = sb.path("nested/dir")
    os.makedirs(sub)
    rng = random.Random(variant)
    steps = []
    # nested projects: the directory above holds another project's configuration, which is none of this one's
    outer = os.path.join(os.path.dirname(sb.proj), ".gwfconf.json")
    outer_text = json.dumps({"a": "outer", "a.b": 7, "verbose": "debug", "backend": "sge"})
    if variant % 2:
        with open(outer, "w") as fh:
            fh.write(outer_text)
    for op in scn["ops"]:
        cwd = sub if rng.random() < 0.4 else sb.proj
        if op["op"] == "set":
            args = ["config", "set", "--", op["k"], RAW[op["raw"]]]
        else:
            args = ["config", op["op"], "--", op["k"]]
        # any invocation may carry one-off global flags; they are settings of that invocation only and the
        # specification ignores them (precedence: flag over file, never flag *into* file)
        flags = rng.choice(FLAGS) if rng.random() < 0.5 else []
        r = sb.gwf(flags + args, cwd=cwd, sub=(variant % 23 == 0))
        st = dict(op, flags=" ".join(flags))
        st.update(exit=r.exit_code if r.exc is None else -1, out=(r.stdout or "").rstrip("\n") if op["op"] == "get" else "",
                  file=typed_file(sb), at_root=os.path.exists(sb.path(".gwfconf.json")),
                  stray_file=os.path.exists(os.path.join(sub, ".gwfconf.json")) or (variant % 2 == 1 and open(outer).read() != outer_text),
                  cwd="nested" if cwd == sub else "root",
                  err=(r.stderr or "")[-200:] + (repr(r.exc) if r.exc else ""))
        steps.append(st)
    if os.path.exists(outer):
        os.remove(outer)
    return {"id": rid, "scn": dict(scn, variant=variant), "steps": steps, "obs": {}}


def run_pty(cmd, cwd, env):
    m, s = pty.openpty()
    p = subprocess.Popen(cmd, stdout=s, stderr=subprocess.PIPE, stdin=subprocess.DEVNULL, cwd=cwd, env=env)
    os.close(s)
    out = b""
    while True:
        try:
            chunk = os.read(m, 65536)
        except OSError:
            break
        if not chunk:
            break
        out += chunk
    p.wait(timeout=60)
    os.close(m)
    return p.returncode, out.decode("utf-8", "replace")


def base_project(sb, conf):
    sb.reset()
    sb.write("workflow.py", WF)
    sb.write(".gwfconf.json", json.dumps(conf))
    sb.render(squeue=[], sacct=[], qstat=[], bjobs=[])


def drive_init(item):
    """`gwf status` where no workflow exists (here or above): the offer to create a project."""
    rid, scn, variant = item
    sb = cli_defs.sandbox()
    sb.reset()
    here = sb.proj if scn["where"] == "root" else sb.path("new/place")
    os.makedirs(here, exist_ok=True)
    before = set(os.listdir(here))
    answer = {"y": "y\n", "n": "n\n", "eof": ""}[scn["answer"]]
    choice = "\n" if scn["choice"] == "default" else scn["choice"] + "\n"
    # (a command that does not need the back end: the local one would wait for a worker pool)
    r = sb.gwf(["config", "get", "verbose"], cwd=here, input=answer + (choice if scn["answer"] == "y" else ""))
    created = sorted(set(os.listdir(here)) - before)
    m = re.search(r"\[(\w+)\]:", r.stdout or "")      # the default the prompt offered
    conf = os.path.join(here, ".gwfconf.json")
    got = ""
    if os.path.exists(conf):
        g = sb.gwf(["config", "get", "backend"], cwd=here)
        got = (g.stdout or "").strip()
    raw = None
    try:
        raw = json.load(open(conf))
    except (OSError, ValueError):
        pass
    obs = {"exit": r.exit_code if r.exc is None or isinstance(r.exc, SystemExit) else -1, "created": created, "guess": m.group(1) if m else "?",
           "workflow_here": os.path.exists(os.path.join(here, "workflow.py")), "conf_here": os.path.exists(conf),
           "stray_file": here != sb.proj and os.path.exists(sb.path(".gwfconf.json")),
           "file": {k: {"t": "str" if isinstance(v, str) else "other", "v": v if isinstance(v, str) else 0} for k, v in (raw or {}).items()} if isinstance(raw, dict) else {},
           "got": got, "err": (r.stderr or "")[-200:]}
    return {"id": rid, "scn": dict(scn, variant=variant), "steps": [], "obs": obs}


def drive_eff(item):
    rid, scn, variant = item
    if scn["kind"] == "init":
        return drive_init(item)
    sb = cli_defs.sandbox()
    kind = scn["kind"]
    obs = {"exit": 0}
    if kind == "backend":
        conf = {} if scn["cfg"] == "none" else {"backend": scn["cfg"]}
        base_project(sb, conf)
        sb.new_calls()
        r = sb.gwf((["-b", scn["flag"]] if scn["flag"] != "none" else []) + ["status"])
        cmds = {c["cmd"] for c in sb.new_calls()}
        obs = {"exit": r.exit_code if r.exc is None else -1, "backend_used": "slurm" if "squeue" in cmds else "sge" if "qstat" in cmds else "lsf" if "bjobs" in cmds else "?"}
    elif kind == "verbose":
        conf = {"backend": "slurm"}
        if scn["cfg"] != "none":
            conf["verbose"] = scn["cfg"]
        base_project(sb, conf)
        r = sb.gwf((["-v", scn["flag"]] if scn["flag"] != "none" else []) + ["run", "--dry-run"], sub=True)
        err = r.stderr or ""
        lvl = "debug" if "Using 'slurm' backend" in err else "info" if "Would submit one" in err else "warning"
        obs = {"exit": r.exit_code, "level_seen": lvl}
    elif kind == "colour":
        conf = {"backend": "slurm"}
        if scn["cfg"] != "none":
            conf["no_color"] = scn["cfg"] == "off"
        base_project(sb, conf)
        env = sb.env()
        env.pop("NO_COLOR", None)
        if scn["env"] == "off":
            env["NO_COLOR"] = "1"
        flag = {"none": [], "on": ["--use-color"], "off": ["--no-color"]}[scn["flag"]]
        rc, out = run_pty([sys.executable, "-c", "from gwf.cli import main; main()"] + flag + ["status"], sb.proj, env)
        obs = {"exit": rc, "colours": "\x1b[" in out, "rows": len(re.findall(r"one\s+shouldrun", out))}
        if obs["rows"] != 1:
            obs["exit"] = -3
    elif kind == "namespace":
        conf = {"backend": scn["selected"]}
        if scn["log_mode"] != "none":
            conf["backend.slurm.log_mode"] = {"full": "full", "merged": "merged", "nolog": "none"}[scn["log_mode"]]
        if scn["acct"] != "none":
            conf["backend.slurm.accounting_enabled"] = scn["acct"] == "on"
        if scn["foreign"]:
            conf.update({"backend.slurmx.y": 5, "backend.local.port": 1, "backendx.slurm.log_mode": "none", "backend.lsf.queue": "q", "backend.sgex": 1})
        base_project(sb, conf)
        sb.write(".gwf/slurm-backend-tracked.json", json.dumps({"old": "77"}))
        sb.new_calls()
        r = sb.gwf(["run"])
        calls = sb.new_calls()
        script = next((c["stdin"] for c in calls if c["cmd"] in ("sbatch", "qsub")), "") or ""
        if "#$ -o " in script:
            ld = "sge"
        elif re.search(r"^#SBATCH --output=/dev/null$", script, re.M):
            ld = "nolog"
        elif re.search(r"^#SBATCH --output=\S+one\.stdout$", script, re.M) and re.search(r"^#SBATCH --error=\S+one\.stderr$", script, re.M):
            ld = "full"
        elif re.search(r"^#SBATCH --output=\S+one\.stdout$", script, re.M):
            ld = "merged"
        else:
            ld = "?"
        obs = {"exit": r.exit_code if r.exc is None else -1, "log_directives": ld, "sacct_called": any(c["cmd"] == "sacct" for c in calls), "err": (r.stderr or "")[-200:] + repr(r.exc or "")}
    return {"id": rid, "scn": dict(scn, variant=variant), "steps": [], "obs": obs}


class Listener(threading.Thread):
    def __init__(self, host, port, label, hits):
        super().__init__(daemon=True)
        self.sock = socket.socket(socket.AF_INET, socket.SOCK_STREAM)
        self.sock.setsockopt(socket.SOL_SOCKET, socket.SO_REUSEADDR, 1)
        self.sock.bind((host, port))
        self.sock.listen(4)
        self.sock.settimeout(0.2)
        self.label, self.hits, self.stop = label, hits, False

    def run(self):
        while not self.stop:
            try:
                c, _ = self.sock.accept()
            except OSError:
                continue
            self.hits.append(self.label)
            try:
                f = c.makefile("rw")
                while True:
                    line = f.readline()
                    if not line:
                        break
                    msg = json.loads(line)
                    if msg.get("__kind__") == "get_task_states":
                        f.write(json.dumps({"__kind__": "task_states", "tasks": {}}) + "\n")
                        f.flush()
                    elif msg.get("__kind__") == "close":
                        break
            except Exception:  # noqa: BLE001
                pass
            c.close()
        self.sock.close()


def drive_local(scns, first_id):
    """Which address the local client dials under backend.local.host / .port settings (serial: fixed ports)."""
    recs = []
    sb = cli_defs.sandbox()
    alt_port = 23451
    hits = []
    try:
        ls = [Listener("127.0.0.1", 12345, ("default", "default"), hits), Listener("127.0.0.1", alt_port, ("cfg", "default"), hits),
              Listener("127.0.0.2", 12345, ("default", "cfg"), hits), Listener("127.0.0.2", alt_port, ("cfg", "cfg"), hits)]
    except OSError as exc:
        print("note: local-port scenarios skipped, cannot bind listeners: %s" % exc)
        return recs
    for x in ls:
        x.start()
    try:
        for k, scn in enumerate(scns):
            conf = {"backend": "local", "backend.slurm.log_mode": "none"}
            if scn["port"] == "cfg":
                conf["backend.local.port"] = alt_port
            if scn["host"] == "cfg":
                conf["backend.local.host"] = "127.0.0.2"
            base_project(sb, conf)
            del hits[:]
            try:
                r = sb.gwf(["status"], sub=True, timeout=20)
                ex = r.exit_code
            except subprocess.TimeoutExpired:
                ex = -9
            d = hits[0] if hits else ("none", "none")
            recs.append({"id": first_id + k, "scn": dict(scn, variant=0), "steps": [], "obs": {"exit": ex, "dialled": {"port": d[0], "host": d[1]}}})
    finally:
        for x in ls:
            x.stop = True
        for x in ls:
            x.join(timeout=2)
    return recs


def drive(item):
    return drive_ops(item) if item[1]["kind"] == "ops" else drive_eff(item)


def validate(ctx, recs):
    from .common import pmap

    parts = max(1, min(8, len(recs) // 200))
    jobs = []
    for k in range(parts):
        ch = recs[k::parts]
        if ch:
            path = ctx.tmp("conf-%d-%d.json" % (k, random.getrandbits(32)))
            dump_json(path, ch)
            jobs.append((path, len(ch), ctx.scratch))
    out = {}
    for o in pmap(_val, jobs, procs=len(jobs)):
        out.update(o)
    return out


def _val(job):
    path, n, scratch = job
    res = tlc.run_tlc("ConfigTrace", "ConfigTrace.cfg", env={"TRACE_FILE": path}, timeout=1200, scratch=scratch)
    v = {x["id"]: x for x in res.values if isinstance(x, dict) and "failed" in x}
    if len(v) != n:
        raise Machinery("ConfigTrace gave %d verdicts for %d traces\n%s" % (len(v), n, res.stdout[-2000:]))
    os.remove(path)
    return v
