"""C03 / C19: generate (DefinitionGen), drive the real definition layer and
graph construction, validate (DefinitionTrace)."""
import json
import os
import pathlib
import random
import shutil
import tempfile

from . import defs, tlc
from .common import Machinery
from .props import cli_defs


def gen(ctx, part, ND=2, Sample=0, MaxIO=2):
    cfg = ctx.tmp("DefinitionGen-%d.cfg" % random.getrandbits(32))
    defs.write_cfg(cfg, dict(ND=ND, Sample=Sample, MaxIO=MaxIO, Part='"%s"' % part))
    res = tlc.run_tlc("DefinitionGen", cfg, seed=ctx.seed, timeout=900, scratch=ctx.scratch)
    if not res.values:
        raise Machinery("DefinitionGen produced nothing")
    return res.values


# abstract file names whose concrete spellings are canonically equivalent Unicode strings (NFC / NFD of the
# same text): on the file systems gwf runs on they are two files, and so they are in the specification
CONC = {"u1": "caf\u00e9", "u2": "cafe\u0301"}


def spell(p, root=""):
    """Concrete spelling of an abstract path; absolute ones live under the real directory `root`."""
    return (root + "/" if p["abs"] else "") + "/".join(CONC.get(c, c) for c in p["comps"])


def unspell(s):
    for a, c in CONC.items():
        s = s.replace(c, a)
    return s


_ROOT = None


def real_root():
    """A real directory standing for the abstract "/": it contains P and P/s; graph construction
    runs with P as the current directory, so relative working directories mean something."""
    global _ROOT
    if _ROOT is None or _ROOT[0] != os.getpid():
        d = os.path.realpath(tempfile.mkdtemp(prefix="gwfverif-root-"))
        os.makedirs(os.path.join(d, "P", "s"))
        import atexit

        atexit.register(shutil.rmtree, d, True)
        _ROOT = (os.getpid(), d)
    return _ROOT[1]


def kind_of(exc):
    from gwf.core import CircularDependencyError, FileProvidedByMultipleTargetsError, UnresolvedInputError

    if isinstance(exc, FileProvidedByMultipleTargetsError):
        return "multi"
    if isinstance(exc, UnresolvedInputError):
        return "unresolved"
    if isinstance(exc, CircularDependencyError):
        return "cycle"
    return "other:" + type(exc).__name__


class NoneExist:
    """A fresh project: no file exists yet (an input nobody provides is then unresolved)."""
    def exists(self, path):
        return False

    def changed_at(self, path):
        raise FileNotFoundError(path)


class AllExist:
    def exists(self, path):
        return True

    def changed_at(self, path):
        return 0.0


def drive_graph(item):
    rid, scn, variant = item
    from gwf.core import Graph, Target

    rng = random.Random(variant)
    perm = defs.NAME_PERMS[variant % 3]
    inv = {v: k for k, v in perm.items()}
    decls = list(scn["decls"])
    rng.shuffle(decls)
    obs = {"built": False, "kind": "", "deps": {}, "dependents": {}, "endpoints": [], "provides": {}, "unresolved": [],
           "has_info": False, "info_deps": {}, "info_dependents": {}}
    targets = []
    root = real_root()
    fsmode = "none" if variant % 3 == 2 else "all"
    for d in decls:
        ins = [spell(p, root) for p in d["ins"]]
        outs = [spell(p, root) for p in d["outs"]]
        rng.shuffle(ins)
        rng.shuffle(outs)
        if variant % 4 == 1 and (ins or outs):
            # the documented way of building up a target: create it, then add to its (list) inputs/outputs in place
            t = Target(name=perm[d["name"]], inputs=list(ins[:-1]), outputs=list(outs[:-1]), options={}, working_dir=spell(d["wd"], root))
            t.inputs.extend(ins[-1:])
            t.outputs.extend(outs[-1:])
            targets.append(t)
            continue
        targets.append(Target(name=perm[d["name"]], inputs=defs.shape(ins, rng.choice(defs.SHAPES)), outputs=defs.shape(outs, rng.choice(defs.SHAPES)),
                              options={}, working_dir=spell(d["wd"], root)))
    old_cwd = os.getcwd()
    os.chdir(os.path.join(root, "P"))
    try:
        g = Graph.from_targets({t.name: t for t in targets}, NoneExist() if fsmode == "none" else AllExist())
        obs["built"] = True
        obs["endpoints"] = sorted(inv[t.name] for t in g.endpoints())
        for t in g:
            a = inv[t.name]
            # .get: reading the graph must not add keys to its defaultdicts
            obs["deps"][a] = sorted(inv[x.name] for x in g.dependencies.get(t, ()))
            obs["dependents"][a] = sorted(inv[x.name] for x in g.dependents.get(t, ()))
        strip = lambda p: unspell(p[len(root):]) if p.startswith(root + "/") else "?" + p  # noqa: E731
        obs["provides"] = {strip(p): inv[t.name] for p, t in g.provides.items()}
        obs["unresolved"] = sorted(strip(p) for p in g.unresolved)
    except Exception as exc:  # noqa: BLE001
        obs["kind"] = kind_of(exc)
    finally:
        os.chdir(old_cwd)
    def realisable():
        # one path may not be both a file and a directory of another one on a real disk
        norm = set()
        for d in decls:
            for q in d["ins"] + d["outs"]:
                comps = [c for c in (([] if q["abs"] else list(d["wd"]["comps"]) if d["wd"]["abs"] else ["P"] + list(d["wd"]["comps"])) + list(q["comps"])) if c not in ("", ".")]
                st = []
                for c in comps:
                    if c == "..":
                        st = st[:-1]
                    else:
                        st.append(c)
                norm.add(tuple(st))
        return not any(a != b and b[:len(a)] == a for a in norm for b in norm)

    if obs["built"] and variant % 9 == 0 and fsmode == "all" and realisable():
        # the same relations through `gwf info` on a real project: the sandbox project directory stands
        # for "/", gwf is invoked from <proj>/P (so that relative working directories resolve as in the
        # specification) and finds <proj>/workflow.py by searching upwards
        sb = cli_defs.sandbox()
        sb.reset()
        root = sb.proj
        os.makedirs(os.path.join(root, "P", "s"))
        lines = ["from gwf import Workflow, AnonymousTarget", "gwf = Workflow(working_dir=%r)" % root]
        for d in decls:
            ins = [spell(p, root) for p in d["ins"]]
            outs = [spell(p, root) for p in d["outs"]]
            lines.append("gwf.target_from_template(%r, AnonymousTarget(inputs=%r, outputs=%r, options={}, working_dir=%r))" % (perm[d["name"]], ins, outs, spell(d["wd"], root)))
            wd_real = os.path.normpath(os.path.join(root, "P", spell(d["wd"], root)))
            for p in d["ins"]:
                f = os.path.normpath(spell(p, root) if p["abs"] else os.path.join(wd_real, spell(p)))
                if f.startswith(root + "/") and not os.path.isdir(f):
                    os.makedirs(os.path.dirname(f), exist_ok=True)
                    open(f, "a").close()
        sb.write("workflow.py", "\n".join(lines) + "\n")
        sb.write(".gwfconf.json", json.dumps({"backend": "slurm"}))
        r = sb.gwf(["info"], cwd=os.path.join(root, "P"))
        obs["has_info"] = True
        try:
            info = json.loads(r.stdout) if r.exit_code == 0 else None
            obs["info_deps"] = {inv[n]: sorted(inv[x] for x in v["dependencies"]) for n, v in info.items()}
            obs["info_dependents"] = {inv[n]: sorted(inv[x] for x in v["dependents"]) for n, v in info.items()}
        except Exception:  # noqa: BLE001
            obs["info_deps"] = {d["name"]: ["?exit %s" % r.exit_code] for d in decls}
            obs["info_dependents"] = {d["name"]: [] for d in decls}
    return {"id": rid, "scn": dict(scn, variant=variant, fsmode=fsmode), "obs": obs}


# --------------------------------------------------------------------------
# C19

CLASS_REPS = {
    "Letter": ["a", "Z", "q"], "Digit": ["7", "0"], "Underscore": ["_"], "Dot": ["."], "Newline": ["\n"], "Space": [" "],
    "Dash": ["-"], "UnicodeLetter": ["é", "ß"], "Other": ["$", "/", "\t"],
}


def drive_name(item):
    rid, scn, variant = item
    from gwf.core import Target

    rng = random.Random(variant)
    name = "".join(rng.choice(CLASS_REPS[c]) for c in scn["classes"])
    try:
        Target(name=name, inputs=[], outputs=[], options={}, working_dir="/p")
        acc = True
    except Exception:  # noqa: BLE001
        acc = False
    return {"id": rid, "scn": dict(scn, variant=variant, name=name), "obs": {"accepted": acc}}


def path_value(kind):
    return {"Str": "data/a.txt", "PathLike": pathlib.Path("data/a.txt"), "Unicode": "dätä/ß→.txt", "Empty": "", "StrWithTab": "a\tb.txt",
            "StrWithNewline": "a.txt\n", "StrWithEsc": "a\x1b[0m.txt", "StrWithNul": "a\x00b", "StrWithDel": "a\x7fb.txt",
            "StrWithC1": "a\x85b.txt", "PathLikeWithC1": pathlib.PurePosixPath("d/a\x9bb"), "Int": 5, "None": None}[kind]


def drive_path(item):
    rid, scn, variant = item
    from gwf import Workflow

    v = path_value(scn["pathkind"])
    wf = Workflow(working_dir="/p")
    try:
        if scn["where"] == "inputs":
            wf.target("t", inputs=[v], outputs=["o"])
        elif scn["where"] == "outputs":
            wf.target("t", inputs=[], outputs=v if scn["pathkind"] in ("Str", "PathLike", "Unicode") and variant % 2 else [v])
        else:
            wf.target("t", inputs={"a": ["ok.txt", v]}, outputs=[["o"]])
        acc = True
        # an accepted path must also be usable by graph construction
        from gwf.core import Graph

        Graph.from_targets(wf.targets, AllExist())
    except Exception:  # noqa: BLE001
        acc = False
    return {"id": rid, "scn": dict(scn, variant=variant), "obs": {"accepted": acc}}


def drive_map(item):
    rid, scn, variant = item
    from gwf import AnonymousTarget, Workflow

    def tmpl(a, b="B", extra=None):
        return AnonymousTarget(inputs=[], outputs=["%s.%s.%s" % (a, b, extra)], options={})

    class Tmpl:
        def __call__(self, a, b="B", extra=None):
            return AnonymousTarget(inputs=[], outputs=["%s.%s.%s" % (a, b, extra)], options={})

    items = []
    for k in range(scn["cnt"]):
        items.append({"str": "i%d" % k, "tuple": ("i%d" % k, "j%d" % k), "dict": {"a": "i%d" % k}, "dict_extra": {"a": "i%d" % k, "b": "b%d" % k}}[scn["shape"]])
    wf = Workflow(working_dir="/p")
    kw = {}
    if scn["shape"] == "dict_extra":
        kw["extra"] = {"extra": "E"}
    mode = scn["mode"]
    func = Tmpl() if mode == "classinst" else tmpl
    if mode == "string":
        kw["name"] = "foo"
    elif mode == "func":
        kw["name"] = lambda idx, t: "custom%d" % idx
    try:
        res = wf.map(func, [items, iter(items), (x for x in items)][variant % 3], **kw)
        names = [t.name for t in res]
        ok_reg = set(names) == set(wf.targets) and len(names) == len(set(names))
    except Exception as exc:  # noqa: BLE001
        names, ok_reg = ["?" + type(exc).__name__], False
    # defining the same name twice must be rejected
    dup = False
    try:
        wf2 = Workflow(working_dir="/p")
        wf2.target("same", inputs=[], outputs=[])
        wf2.target("same", inputs=[], outputs=["x"])
    except Exception:  # noqa: BLE001
        dup = True
    if not ok_reg and names and not names[0].startswith("?"):
        names = ["?not-registered"] + names
    return {"id": rid, "scn": dict(scn, variant=variant), "obs": {"names": names, "dup_rejected": dup}}


def drive_defseq(item):
    """A sequence of definition operations on one workflow; stops after the first one that raises."""
    rid, scn, variant = item
    from gwf import AnonymousTarget, Workflow
    from gwf.exceptions import WorkflowError

    conc = [{"n1": "alpha", "n2": "bravo", "n3": "alpha_0"}, {"n1": "foo_0", "n2": "foo_1", "n3": "Foo_0"}, {"n1": "a.b", "n2": "a", "n3": "b"}][variant % 3]
    inv = {v: k for k, v in conc.items()}
    wf = Workflow(working_dir="/p")
    acc, results, errkind = [], [], ""
    for k, op in enumerate(scn["ops"]):
        names = [conc[n] for n in op["names"]]
        try:
            if op["op"] == "target":
                res = [wf.target(names[0], inputs=[], outputs=["o%d" % k])]
            elif op["op"] == "template":
                res = [wf.target_from_template(names[0], AnonymousTarget(inputs=[], outputs=["o%d" % k], options={}))]
            else:
                items = ["i%d" % j for j in range(len(names))]
                # the items may come as any iterable: a list, a one-shot iterator, a generator
                items = [items, iter(items), (x for x in items)][(variant + k) % 3]
                res = list(wf.map(lambda x: AnonymousTarget(inputs=[], outputs=["o%d_%s" % (k, x)], options={}),
                                  items, name=lambda idx, t: names[idx]))
            acc.append(True)
            results.append([inv.get(t.name, "?" + t.name) for t in res])
        except WorkflowError:
            acc.append(False)
            errkind = "WorkflowError"
            break
        except Exception as exc:  # noqa: BLE001
            acc.append(False)
            errkind = type(exc).__name__
            break
    registered = sorted(inv.get(n, "?" + n) for n in wf.targets)
    results += [[] for _ in range(len(scn["ops"]) - len(results))]
    return {"id": rid, "scn": dict(scn, variant=variant), "obs": {"acc": acc, "results": results, "registered": registered, "errkind": errkind}}


def drive_wd(item):
    """A real project on disk; files placed where the specification resolves them; `gwf status`
    and `gwf info` from the project root, a nested directory and an unrelated directory (-f)."""
    rid, scn, variant = item
    sb = cli_defs.sandbox()
    sb.reset()
    P = sb.proj
    dirs = {"P": P, "W": os.path.join(P, "w"), "E": os.path.join(P, "e")}
    for d in dirs.values():
        os.makedirs(d, exist_ok=True)
    nested = os.path.join(P, "sub", "deep")
    os.makedirs(nested)
    unrelated = tempfile.mkdtemp(prefix="gwfverif-unrel-")
    lines = ["from gwf import Workflow, AnonymousTarget",
             "gwf = Workflow(%s)" % ("working_dir=%r" % dirs["W"] if scn["wfmode"] == "explicit" else ""),
             "def tmpl(i, o, wd=None):",
             "    kw = {} if wd is None else {'working_dir': wd}",
             "    return AnonymousTarget(inputs=i, outputs=o, options={}, **kw)"]
    prev_out = None
    names = []
    for k, t in enumerate(scn["targets"]):
        name = "t%d" % (k + 1)
        names.append(name)
        loc = dirs[t["loc"]]
        out = "out_%s_re\u0301sultat.txt" % name        # (a decomposed accent: the name on disk is exactly this one)
        ins = ["src.txt"] if prev_out is None else ["src.txt", prev_out]
        sb_src = os.path.join(loc, "src.txt")
        if not os.path.exists(sb_src):
            open(sb_src, "w").write("src")
            os.utime(sb_src, (1_500_000_000, 1_500_000_000))
        wdarg = "None" if t["explicit"] == "none" else repr(dirs["E"])
        # the previous target's output is referred to by its absolute path so that the dependency
        # exists whatever directories the two targets use
        ins_expr = repr(ins[:1] + ([prev_abs] if prev_out else []))
        if t["mode"] == "target":
            lines.append("gwf.target(%r, inputs=%s, outputs=[%r]) << 'echo'" % (name, ins_expr, out))
        elif t["mode"] == "template":
            # the same template object is first added to another workflow living elsewhere: that must
            # not change what it means here
            lines.append("tpl_%s = tmpl(%s, [%r], %s)" % (name, ins_expr, out, wdarg))
            lines.append("Workflow(working_dir=%r).target_from_template(%r, tpl_%s)" % (dirs["E"] if t["loc"] != "E" else dirs["W"], name + "_elsewhere", name))
            lines.append("gwf.target_from_template(%r, tpl_%s)" % (name, name))
        else:
            lines.append("gwf.map(tmpl, [(%s, [%r], %s)], name=lambda i, t: %r)" % (ins_expr, out, wdarg, name))
        f = os.path.join(loc, out)
        open(f, "w").write("x")
        os.utime(f, (1_500_000_100 + k, 1_500_000_100 + k))
        prev_out, prev_abs = out, f
    wf_src = os.path.join(dirs[scn["wfdir"]], "src.txt")
    if not os.path.exists(wf_src):
        open(wf_src, "w").write("src")
        os.utime(wf_src, (1_500_000_000, 1_500_000_000))
    # the workflow's helpers resolve relative patterns and run commands in the workflow's own working directory
    lines.append("gwf.target('helpers', inputs=sorted(gwf.glob('src*.txt')) + sorted(gwf.iglob('./src*.txt')), outputs=[]) "
                 "<< gwf.shell('pwd -P', universal_newlines=True)")
    sb.write("workflow.py", "\n".join(lines) + "\n")
    sb.write(".gwfconf.json", json.dumps({"backend": "slurm"}))
    runs = []
    # a relative -f with a directory part, from a directory where it does not exist: gwf searches the ancestors for
    # that relative path; an unrelated workflow.py sits in the common ancestor
    above = os.path.dirname(P)
    side = os.path.join(above, "other", "deep")
    os.makedirs(side, exist_ok=True)
    with open(os.path.join(above, "workflow.py"), "w") as fh:
        fh.write("from gwf import Workflow\ngwf = Workflow()\ngwf.target('decoy', inputs=[], outputs=[]) << 'true'\n")
    rel_f = os.path.join(os.path.basename(P), "workflow.py")
    # ... and -f through a symbolic link to the project directory (relative paths still mean the files next to the
    # workflow file, which other targets may name by their physical path)
    link = os.path.join(above, "other", "plink")
    os.symlink(P, link)
    for cwd, args in ((P, []), (nested, []), (unrelated, ["-f", os.path.join(P, "workflow.py")]), (side, ["-f", rel_f]),
                      (unrelated, ["-f", os.path.join(link, "workflow.py")]), (side, ["-f", os.path.join("plink", "..", os.path.basename(P), "workflow.py")])):
        r = sb.gwf(args + ["status"], cwd=cwd, sub=(variant % 2 == 0))
        table, bad = cli_defs.parse_status_table(r.stdout)
        table.pop("helpers", None)
        ri = sb.gwf(args + ["info"], cwd=cwd)
        dep_seen = len(names) < 2
        helpers_at = "?"
        try:
            info = json.loads(ri.stdout)
            if len(names) == 2:
                dep_seen = info[names[1]]["dependencies"] == [names[0]]
            # where glob()/iglob() looked and where shell() ran: the abstract directory, "?" if they disagree
            where = {os.path.dirname(os.path.normpath(x)) for x in info["helpers"]["inputs"]} | {info["helpers"]["spec"].strip()}
            rev = {os.path.realpath(v): k for k, v in dirs.items()}
            if len(info["helpers"]["inputs"]) == 2 and len({os.path.realpath(w) for w in where}) == 1:
                helpers_at = rev.get(os.path.realpath(where.pop()), "?")
        except Exception:  # noqa: BLE001
            dep_seen = False
        runs.append({"cwd": os.path.relpath(cwd, P) if cwd.startswith(P) else "unrelated", "exit": r.exit_code if not bad and r.exc is None else -1,
                     "status": table, "ntargets": len(table), "dep_seen": dep_seen, "helpers_at": helpers_at,
                     "gwfdir_ok": (os.path.isdir(os.path.join(P, ".gwf")) and not os.path.exists(os.path.join(cwd, ".gwf")) or cwd == P)
                                  and not os.path.exists(os.path.join(above, ".gwf")),
                     "err": (r.stderr or "")[-200:]})
    shutil.rmtree(unrelated, ignore_errors=True)
    shutil.rmtree(os.path.join(above, "other"), ignore_errors=True)
    shutil.rmtree(os.path.join(above, ".gwf"), ignore_errors=True)
    os.remove(os.path.join(above, "workflow.py"))
    return {"id": rid, "scn": dict(scn, variant=variant), "obs": {"runs": runs}}


DRIVERS = {"graph": drive_graph, "wd": drive_wd, "name": drive_name, "path": drive_path, "map": drive_map, "defseq": drive_defseq}


def drive(item):
    return DRIVERS[item[1]["kind"]](item)
