"""Generate / drive / validate for the pure part of the specification
(GwfDefs): used by C01, C02, C05 (API level) and by the CLI-level drivers."""
import collections
import json
import types
import os
import random
import shutil
import tempfile

from . import tlc
from .common import Machinery, dump_json, pmap

STATUS_NAME = None  # filled lazily (gwf import)

BSTATES = ["U", "S", "R", "C", "X", "K"]

# --------------------------------------------------------------------------
# generation


def write_cfg(path, constants):
    with open(path, "w") as f:
        f.write("CONSTANTS\n")
        for k, v in constants.items():
            f.write("  %s = %s\n" % (k, v))


def tla_set(items):
    return "{" + ", ".join('"%s"' % x for x in items) + "}"


def gen(ctx, *, NT, NF, MaxT, BSet, HashOn, MaxIO=2, SelAll=False, Sample=0, seed=None, timeout=900):
    cfg = ctx.tmp("DefsGen-%d.cfg" % random.getrandbits(32))
    write_cfg(
        cfg,
        dict(
            NT=NT,
            NF=NF,
            MaxT=MaxT,
            BSet=tla_set(BSet),
            HashOn="TRUE" if HashOn else "FALSE",
            MaxIO=MaxIO,
            SelAll="TRUE" if SelAll else "FALSE",
            Sample=Sample,
        ),
    )
    res = tlc.run_tlc("DefsGen", cfg, seed=ctx.seed if seed is None else seed, timeout=timeout, scratch=ctx.scratch)
    if not res.values:
        raise Machinery("DefsGen produced no scenario")
    return res.values


# --------------------------------------------------------------------------
# concretisation

NAME_PERMS = [
    {"A": "alpha", "B": "bravo", "C": "charlie", "D": "delta"},
    {"A": "zeta", "B": "mid", "C": "beta", "D": "alef"},
    {"A": "t9", "B": "t10", "C": "T1", "D": "_t"},
    # names that are proper prefixes of one another (a selection by several names must not match by prefix)
    {"A": "Map", "B": "Map_index", "C": "Ma", "D": "Map_index_2"},
]

# concrete names of the abstract files, per variant: plain; a decomposed (NFD) name next to its composed (NFC) twin -
# two different files on the file systems gwf runs on; a name with a space and one with a compatibility singleton
FNAMES = [
    {},
    {"f1": "re\u0301sume\u0301.txt", "f2": "r\u00e9sum\u00e9.txt"},
    {"f1": "data set.txt", "f3": "\u2126-table.tsv", "f2": "F2"},
]


def fname(f, variant):
    return FNAMES[variant % len(FNAMES)].get(f, f)


SHAPES = ["list", "str", "nested", "dict", "dictE", "tuple", "gen", "mapview", "chainmap"]


def shape(paths, kind):
    """Group a list of path strings into the container shape `kind`."""
    paths = list(paths)
    if kind == "list":
        return list(paths)
    if kind == "tuple":
        return tuple(paths)
    if kind == "str":
        return paths[0] if len(paths) == 1 else list(paths)
    if kind == "nested":
        return [[p] for p in paths] if paths else [[]]
    if kind == "dict":
        return {"k%d" % i: (p if i % 2 == 0 else [p]) for i, p in enumerate(paths)}
    if kind == "dictE":
        d = {"k%d" % i: [p] for i, p in enumerate(paths)}
        d["empty"] = []
        return d
    if kind == "gen":
        return [tuple(paths[:1]), list(paths[1:])] if paths else [(), []]
    # mappings that are not dicts (read-only view of named outputs, merged named outputs): the values are the files
    if kind == "mapview":
        return types.MappingProxyType({"k%d" % i: p for i, p in enumerate(paths)})
    if kind == "chainmap":
        return collections.ChainMap({"k%d" % i: p for i, p in enumerate(paths) if i % 2 == 0},
                                    {"k%d" % i: [p] for i, p in enumerate(paths) if i % 2 == 1})
    raise ValueError(kind)


def shape_src(paths, kind):
    """Python source text that evaluates to shape(paths, kind) in a workflow file."""
    v = shape(paths, kind)
    if kind == "mapview":
        return "__import__('types').MappingProxyType(%r)" % (dict(v),)
    if kind == "chainmap":
        return "__import__('collections').ChainMap(%s)" % ", ".join(repr(m) for m in v.maps)
    return repr(v)


class DictFS:
    def __init__(self, table):
        self.t = table

    def exists(self, path):
        return self.t.get(path) is not None

    def changed_at(self, path):
        v = self.t.get(path)
        if v is None:
            raise FileNotFoundError(path)
        return v


class RecOps:
    """A recording scheduler behind the real TrackingBackend."""

    target_defaults = {}

    def __init__(self, states, first_id):
        self.states = states
        self.next = first_id
        self.subs = []

    def get_job_states(self, tracked):
        return {j: self.states[j] for j in tracked if j in self.states}

    def submit_target(self, target, dependency_ids):
        jid = str(self.next)
        self.next += 1
        self.subs.append({"t": target.name, "id": jid, "deps": list(dependency_ids)})
        return jid

    def cancel_job(self, job_id):
        pass

    def close(self):
        pass


_WORKDIR = None


def _workdir():
    global _WORKDIR
    if _WORKDIR is None or _WORKDIR[0] != os.getpid():
        d = tempfile.mkdtemp(prefix="gwfverif-api-")
        os.makedirs(os.path.join(d, ".gwf", "logs"))
        import atexit

        atexit.register(shutil.rmtree, d, True)
        _WORKDIR = (os.getpid(), d)
    return _WORKDIR[1]


SPEC_TEXT = "echo spec-of-%s\n"


def drive_api(item):
    """Run the real graph construction, status map and submission planning on
    one scenario.  item = (id, scn, variant); variant seeds name permutation,
    definition order and container shapes."""
    rid, scn, variant = item
    from gwf.backends.base import BackendStatus, TrackingBackend
    from gwf.core import Graph, Target, get_spec_hashes, hash_spec
    from gwf.scheduling import get_status_map, submit_workflow

    rng = random.Random(variant)
    perm = NAME_PERMS[variant % len(NAME_PERMS)]
    inv = {v: k for k, v in perm.items()}
    wd = _workdir()
    T = list(scn["T"])
    order = T[:]
    rng.shuffle(order)
    shapes = {}
    targets = []
    for t in order:
        si, so = rng.choice(SHAPES), rng.choice(SHAPES)
        shapes[t] = [si, so]
        tg = Target(
            name=perm[t],
            inputs=shape([fname(f, variant) for f in sorted(scn["in"][t])], si),
            outputs=shape([fname(f, variant) for f in sorted(scn["out"][t])], so),
            options={},
            working_dir="/p",
            spec=SPEC_TEXT % t,
        )
        targets.append(tg)
    fs = DictFS({"/p/" + fname(f, variant): (None if m < 0 else 1000.0 + m) for f, m in scn["fs"].items()})
    # state files
    bmap = {
        "S": BackendStatus.SUBMITTED,
        "R": BackendStatus.RUNNING,
        "C": BackendStatus.COMPLETED,
        "X": BackendStatus.FAILED,
        "K": BackendStatus.CANCELLED,
    }
    trk, states = {}, {}
    for k, t in enumerate(sorted(T)):
        if scn["b"][t] != "U":
            jid = str(100 + k)
            trk[perm[t]] = jid
            states[jid] = bmap[scn["b"][t]]
    with open(os.path.join(wd, ".gwf", "rec-backend-tracked.json"), "w") as f:
        json.dump(trk, f)
    hpath = os.path.join(wd, ".gwf", "spec-hashes.json")
    if scn["hash"]:
        rec = {}
        for t in T:
            if scn["hrec"][t] == "same":
                rec[perm[t]] = hash_spec(SPEC_TEXT % t)
            elif scn["hrec"][t] == "changed":
                rec[perm[t]] = hash_spec("echo an older spec of %s\n" % t)
        with open(hpath, "w") as f:
            json.dump(rec, f)
    elif os.path.exists(hpath):
        os.remove(hpath)
    config = {"use_spec_hashes": bool(scn["hash"])}
    obs = {"has_status": False, "has_subs": False, "has_dry": False, "status": {}, "subs": [], "dry": [], "err": "",
           "snap": ["", "", ""], "filt": [], "mut_status": [], "mut_dry": [], "trk_after": {}}
    try:
        graph = Graph.from_targets({t.name: t for t in targets}, fs)
        backend = TrackingBackend(wd, name="rec", ops=RecOps(states, 500))
        hashes = get_spec_hashes(working_dir=wd, config=config)
        sm = get_status_map(graph, fs, hashes, backend)
        obs["status"] = {inv[t.name]: s.name.lower() for t, s in sm.items()}
        obs["has_status"] = set(obs["status"]) == set(T)
        if not obs["has_status"]:
            obs["err"] = "status map misses targets"
        ops = RecOps(states, 500)
        backend = TrackingBackend(wd, name="rec", ops=ops)
        hashes = get_spec_hashes(working_dir=wd, config=config)
        sel = scn["sel"]
        endpoints = set() if scn.get("nomatch") else ({graph[perm[t]] for t in sel} if sel else graph.endpoints())
        submit_workflow(endpoints, graph, fs, hashes, backend)
        obs["subs"] = [{"t": inv[s["t"]], "id": s["id"], "deps": s["deps"], "kind": "api" if s["deps"] else "none"} for s in ops.subs]
        obs["has_subs"] = True
    except Exception as exc:  # noqa: BLE001 - every failure is an observation
        obs["err"] = "%s: %s" % (type(exc).__name__, exc)
    s2 = dict(scn)
    s2.setdefault("nomatch", False)
    s2["trk"] = {inv[n]: j for n, j in trk.items()}
    s2["shapes"] = shapes
    s2["variant"] = variant
    s2["level"] = "api"
    s2["backend"] = "api"
    return {"id": rid, "scn": s2, "obs": obs}


# --------------------------------------------------------------------------
# validation


def validate(ctx, records, module="DefsTrace", cfg="DefsTrace.cfg", parts=None):
    """Have TLC evaluate every clause of `module` on every record.  Returns
    {record id: [failed clause names]} for the records with failures."""
    if not records:
        return {}
    parts = parts or (16 if len(records) > 4000 else 4 if len(records) > 400 else 1)
    chunks = [records[k::parts] for k in range(parts)]
    jobs = []
    for k, ch in enumerate(chunks):
        if not ch:
            continue
        path = ctx.tmp("batch-%s-%d-%d.json" % (module, k, random.getrandbits(32)))
        dump_json(path, ch)
        jobs.append((module, cfg, path, len(ch), ctx.scratch))
    outs = pmap(_validate_one, jobs, procs=len(jobs))
    failed = {}
    for o in outs:
        failed.update(o)
    return failed


def _validate_one(job):
    module, cfg, path, n, scratch = job
    res = tlc.run_tlc(module, cfg, env={"TRACE_FILE": path}, timeout=1800, scratch=scratch, xmx="4g")
    if res.distinct != n:
        raise Machinery("%s evaluated %d of %d records:\n%s" % (module, res.distinct, n, res.stdout[-2000:]))
    os.remove(path)
    return {v["id"]: v["failed"] for v in res.values if isinstance(v, dict) and "failed" in v}
