"""A real gwf local worker pool (real Server + a recording subclass of the real Scheduler) on a
background thread with its own event loop and an ephemeral TCP port, for GwfProject histories on
the local back end.  Jobs are real shell processes that wait for a release file written by the
driver, so the driver decides when and how each job ends."""
import asyncio
import os
import threading
import time


class FastWorld:
    """What the pool module sees as `time`: the wall clock of a world in which everything (the user, the
    driver, the jobs) is SPEED times faster than here - equivalently a clock that advances SPEED times more
    slowly.  A pool that lived for seconds here lived for a fraction of a second there, so anything the pool
    derives from the wall clock (the first task id of a new pool) is put to the test a fast user would put
    it to: restarting the pool sooner after its start than it accepted tasks.  Microsecond-based ids of
    pools started >= 1 ms apart in that world stay disjoint for any history of < 1000 tasks."""
    SPEED = 50

    def __init__(self):
        self._base = time.time_ns()

    def time_ns(self):
        return self._base + (time.time_ns() - self._base) // self.SPEED

    def time(self):
        return self.time_ns() / 1e9

    def __getattr__(self, name):
        return getattr(time, name)


class Pool:
    def __init__(self, wd, ctl, cores=16):
        from gwf.backends import local

        if not isinstance(local.time, FastWorld):
            local.time = FastWorld()

        self.wd, self.ctl = wd, ctl
        os.makedirs(os.path.join(ctl, "release"), exist_ok=True)
        self.enqueued = []   # (tid, name, deps) in order of acceptance
        self.cancels = []    # tids
        self.refused = []    # names of the enqueue requests the pool failed on (fault injection)
        outer = self

        self.run_enq = 0     # enqueue requests since the driver last reset the counter
        self.fault = None    # (k, action): the k-th enqueue request is not accepted - the pool fails on it after
                             # calling action() (e.g. killing the client) - as if the pool had gone away

        class RecScheduler(local.Scheduler):
            async def enqueue_task(self, name, script, working_dir, time_limit, deps):
                outer.run_enq += 1
                f = outer.fault
                if f is not None and outer.run_enq == f[0]:
                    outer.fault = None
                    outer.refused.append(name)
                    if f[1] is not None:
                        f[1]()
                    raise ConnectionResetError("simulated failure of the worker pool")
                tid = await super().enqueue_task(name=name, script=script, working_dir=working_dir, time_limit=time_limit, deps=deps)
                outer.enqueued.append((tid, name, list(deps) if isinstance(deps, (list, tuple)) else deps))
                return tid

            async def cancel_task(self, tid):
                outer.cancels.append(tid)
                return await super().cancel_task(tid)

        self.loop = asyncio.new_event_loop()
        self.ready = threading.Event()
        self.port = None
        self._sched_cls = RecScheduler
        self._local = local
        self.thread = threading.Thread(target=self._run, args=(cores,), daemon=True)
        self.thread.start()
        if not self.ready.wait(10):
            raise RuntimeError("local pool did not start")

    def _run(self, cores):
        asyncio.set_event_loop(self.loop)
        # (a connection handler that dies - injected pool failure, malformed request - is reported through what the
        # clients observe, not through the loop's default "Unhandled exception" print)
        self.loop.set_exception_handler(lambda loop, context: None)
        self.sched = self._sched_cls(self.wd, cores)
        self.server = self._local.Server(self.sched)
        srv = self.loop.run_until_complete(asyncio.start_server(self.server.handle_connection, "127.0.0.1", 0))
        self.server.server = srv
        self.port = srv.sockets[0].getsockname()[1]
        self.ready.set()
        try:
            self.loop.run_forever()
        finally:
            srv.close()

    def states(self):
        return {tid: st.name for tid, st in dict(self.sched.task_states).items()}

    def settle(self, want=None, timeout=10.0):
        """Wait until the pool's state table stops changing (and, if given, want(states) holds)."""
        end = time.time() + timeout
        last, stable = None, 0
        while time.time() < end:
            cur = self.states()
            if cur == last and (want is None or want(cur)):
                stable += 1
                if stable >= 3:
                    return cur
            else:
                stable = 0
            last = cur
            time.sleep(0.03)
        return self.states()

    def release(self, name, rc):
        with open(os.path.join(self.ctl, "release", name), "w") as f:
            f.write(str(rc))

    def stop(self):
        async def _kill():
            for t in list(self.sched.tasks.values()):
                t.cancel()
            await asyncio.sleep(0)

        try:
            asyncio.run_coroutine_threadsafe(_kill(), self.loop).result(5)
        except Exception:  # noqa: BLE001
            pass
        time.sleep(0.05)
        self.loop.call_soon_threadsafe(self.loop.stop)
        self.thread.join(5)
        # the gentle kill of cancelled tasks sleeps one second; do not wait for it: kill what is left
        for t, p in list(getattr(self, "_procs", {}).items()):
            pass


def job_script(ctl, name, tag):
    """Spec text of a target on the local back end: wait for the driver's release file, exit with its code."""
    return (
        "# %s\n"
        'n=0; while [ ! -f "%s/release/%s" ]; do sleep 0.02; n=$((n+1)); if [ $n -gt 6000 ]; then exit 99; fi; done\n'
        'rc=$(cat "%s/release/%s"); rm -f "%s/release/%s"; exit $rc\n' % (tag, ctl, name, ctl, name, ctl, name)
    )
