"""Entry point of every check: bin/check <ID> [--tier quick|thorough] [--replay FILE]"""
import argparse
import importlib
import os
import sys
import traceback

from . import common


def main():
    ap = argparse.ArgumentParser()
    ap.add_argument("pid")
    ap.add_argument("--tier", default=os.environ.get("VERIF_TIER", "quick"), choices=["quick", "thorough"])
    ap.add_argument("--replay")
    a = ap.parse_args()
    seed = int(os.environ.get("VERIF_SEED", "0") or 0)
    ctx = common.Ctx(a.pid, a.tier, seed)
    try:
        common.assert_repo_import()
        mod = importlib.import_module("harness.props." + a.pid.lower())
        if a.replay:
            rc = mod.replay(ctx, a.replay)
        else:
            mod.run(ctx)
            rc = common.finish(ctx)
    except common.Machinery as exc:
        print("MACHINERY-FAILURE %s: %s" % (a.pid, exc), file=sys.stderr)
        sys.exit(2)
    except Exception:  # noqa: BLE001
        traceback.print_exc()
        print("MACHINERY-FAILURE %s: unexpected exception" % a.pid, file=sys.stderr)
        sys.exit(2)
    sys.exit(rc)


if __name__ == "__main__":
    main()
