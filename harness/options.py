"""C10: generate (OptionsGen), drive (real `gwf run` against simulated schedulers, the
submitted script executed by bash from a foreign directory), validate (OptionsTrace)."""
import json
import os
import random
import re
import subprocess

from . import defs, tlc
from .common import Machinery
from .props import cli_defs

OPT = {"known_default": ("cores", {"V1": 2, "V2": 4}, "1"), "known_none": ("queue", {"V1": "q1", "V2": "q2"}, None), "unknown": ("bogus", {"V1": "x1", "V2": "x2"}, None)}
FLAG = {
    ("slurm", "cores"): r"^#SBATCH -c (.*)$", ("slurm", "queue"): r"^#SBATCH -p (.*)$",
    ("sge", "cores"): r"^#\$ -pe smp (.*)$", ("sge", "queue"): r"^#\$ -q (.*)$",
    ("lsf", "cores"): r"^#BSUB -n (.*)$", ("lsf", "queue"): r"^#BSUB -q (.*)$",
}
SUBMIT = {"slurm": "sbatch", "sge": "qsub", "lsf": "bsub"}


def gen(ctx, Sample):
    cfg = ctx.tmp("OptionsGen-%d.cfg" % random.getrandbits(32))
    defs.write_cfg(cfg, dict(Sample=Sample))
    res = tlc.run_tlc("OptionsGen", cfg, seed=ctx.seed, timeout=900, scratch=ctx.scratch)
    if not res.values:
        raise Machinery("OptionsGen produced nothing")
    return res.values


def pyval(layer, table):
    return None if layer == "None" else table[layer]


def submitted_script(sb, backend, args=("run",)):
    sb.new_calls()
    r = sb.gwf(["-b", backend] + list(args))
    calls = sb.new_calls()
    scripts = [c["stdin"] for c in calls if c["cmd"] == SUBMIT[backend]]
    # the script of target 't' (the last one submitted when there are several)
    script = next((s for s in reversed(scripts) if s and re.search(r"(job-name=|-N |-J )t\b", s)), scripts[-1] if scripts else None)
    return r, script


def drive_option(item):
    rid, scn, variant = item
    sb = cli_defs.sandbox()
    sb.reset()
    name, table, default = OPT[scn["okind"]]
    if scn["backend"] == "lsf" and name == "queue":
        default = "normal"
    wf_kw = "" if scn["wfdef"] == "absent" else "defaults={%r: %r}" % (name, pyval(scn["wfdef"], table))
    arg_kw = "" if scn["arg"] == "absent" else ", %s=%r" % (name, pyval(scn["arg"], table))
    topt = "{}" if scn["tmpl"] == "absent" else "{%r: %r}" % (name, pyval(scn["tmpl"], table))
    lines = ["from gwf import Workflow, AnonymousTarget", "gwf = Workflow(%s)" % wf_kw,
             "def tmpl(x):", "    return AnonymousTarget(inputs=[], outputs=['o_' + x], options=%s, spec='echo hi')" % topt]
    if scn["mode"] == "after_plain":
        # 'a_plain' sorts before 't' and is submitted first; it has no options whatsoever
        lines.append("gwf.target('a_plain', inputs=[], outputs=['o0']) << 'echo plain'")
        lines.append("gwf.target('t', inputs=[], outputs=['o']%s) << 'echo hi'" % arg_kw)
    elif scn["mode"] == "target":
        lines.append("gwf.target('t', inputs=[], outputs=['o']%s) << 'echo hi'" % arg_kw)
    elif scn["mode"] == "template":
        lines.append("gwf.target_from_template('t', tmpl('a')%s)" % arg_kw)
    else:
        lines.append("gwf.map(tmpl, ['a'], name='t'%s)" % arg_kw)
    sb.write("workflow.py", "\n".join(lines) + "\n")
    r, script = submitted_script(sb, scn["backend"])
    obs = {"exit": r.exit_code if r.exc is None and script is not None else -1, "values": [], "warned": False, "none_literal": False, "err": (r.stderr or "")[-300:] + repr(r.exc or "")}
    if script is not None:
        header = script.split("\ncd ")[0]
        if name == "bogus":
            raw = re.findall(r"(?<![\w/.-])(x1|x2|bogus)(?![\w/.-])", header)
        else:
            raw = [v.strip() for v in re.findall(FLAG[(scn["backend"], name)], header, re.M)]
        inv = {str(v): k for k, v in table.items()}
        if default is not None:
            inv[str(default)] = "D"
        obs["values"] = [inv.get(v, "?" + v) for v in raw]
        obs["none_literal"] = bool(re.search(r"^#(SBATCH|\$|BSUB) .*\bNone\b", header, re.M))
        obs["warned"] = "Option '%s' used in" % name in (r.stderr or "")
    return {"id": rid, "scn": dict(scn, variant=variant), "obs": obs}


KNOWN_VAL = {"queue": "q1", "cores": 4, "memory": "8g", "walltime": "02:00:00"}


def drive_twoopts(item):
    """A known option at one level and a scheduler-flavoured, possibly unknown one at another: whatever the
    back end makes of the second, no directive may be given twice."""
    rid, scn, variant = item
    sb = cli_defs.sandbox()
    sb.reset()
    other_val = {"partition": "short", "ntasks": 2, "cpus_per_task": 2, "mem": "1g", "time": "00:10:00", "nodes": 1, "q": "short", "n": 2, "W": "10", "M": "1g"}[scn["other"]]
    known_kw = "%s=%r" % (scn["known"], KNOWN_VAL[scn["known"]])
    other = "%r: %r" % (scn["other"], other_val)
    wf_kw = "defaults={%s}" % other if scn["otherat"] == "wfdef" else ""
    topt = "{%s}" % other if scn["otherat"] == "tmpl" else "{}"
    arg_kw = ", %s" % known_kw + (", %s=%r" % (scn["other"], other_val) if scn["otherat"] == "arg" else "")
    lines = ["from gwf import Workflow, AnonymousTarget", "gwf = Workflow(%s)" % wf_kw,
             "def tmpl(x):", "    return AnonymousTarget(inputs=[], outputs=['o_' + x], options=%s, spec='echo hi')" % topt]
    if scn["mode"] == "target":
        lines.append("gwf.target('t', inputs=[], outputs=['o']%s) << 'echo hi'" % arg_kw)
    else:
        lines.append("gwf.target_from_template('t', tmpl('a')%s)" % arg_kw)
    sb.write("workflow.py", "\n".join(lines) + "\n")
    r, script = submitted_script(sb, scn["backend"])
    flags = []
    if script is not None:
        for ln in script.split("\ncd ")[0].splitlines():
            m = re.match(r"^#(?:SBATCH|\$|BSUB) (--?[\w-]+)(?:[ =](\w+)=)?", ln)
            if m:
                flags.append(m.group(1) + (" " + m.group(2) if m.group(1) == "-l" and m.group(2) else ""))
    dup = sorted({f for f in flags if flags.count(f) > 1})
    return {"id": rid, "scn": dict(scn, variant=variant), "obs": {"exit": r.exit_code if r.exc is None and script is not None else -1, "dupflags": dup, "flags": flags}}


def drive_sgemem(item):
    rid, scn, variant = item
    sb = cli_defs.sandbox()
    sb.reset()
    sb.write("workflow.py", "from gwf import Workflow\ngwf = Workflow()\ngwf.target('t', inputs=[], outputs=['o'], cores=%d, memory=%r) << 'echo hi'\n" % (scn["cores"], "%d%s" % (scn["total"], scn["unit"])))
    r, script = submitted_script(sb, "sge")
    found = re.findall(r"^#\$ -l h_vmem=(\d+)(\w*)$", script or "", re.M)
    obs = {"exit": r.exit_code if r.exc is None and script is not None else -1, "count": len(found), "number": int(found[0][0]) if found else -1, "unit": found[0][1] if found else "?"}
    return {"id": rid, "scn": dict(scn, variant=variant), "obs": obs}


DIRS = {"plain": "work", "space": "my work dir", "squote": "it's here", "dquote": 'say "hi"', "dollar": "cost$HOME", "semicolon": "a;b",
        "amp": "a&b", "glob": "a*b?[c]", "dash": "-dash", "unicode": "dätä", "paren": "a(b)", "braces": "run{cores}_{queue}"}
CMD = {"plain": "echo plain-token", "quotes": "echo 'single quoted' \"double quoted\"", "dollar": "echo 'cost: $5' \\$HOME",
       # the words the back ends use as placeholders in their own header templates are ordinary text in a spec
       "braces": "echo \"t=${cores}; {queue} {memory} {job_name} {std_out} {walltime} {account}\""}
OUT = {"plain-token": "plain", "single quoted double quoted": "quotes", "cost: $5 $HOME": "dollar",
       "t=; {queue} {memory} {job_name} {std_out} {walltime} {account}": "braces"}


def spec_text(cmds, nl):
    lines = ["echo err-marker >&2", "echo out-marker"]
    for c in cmds:
        if c["c"] == "Echo":
            lines.append(CMD[c["tok"]])
        elif c["c"] == "Fail":
            lines.append("false")
        elif c["c"] == "Touch":
            lines.append("touch " + c["f"])
        elif c["c"] == "Pwd":
            lines.append("echo PWD=$(pwd)")
    if nl == "blank":
        lines = [""] + [x for ln in lines for x in (ln, "")]
    text = "\n".join(lines)
    return text + ("\n" if nl != "nonl" else "")


def parse_redirects(backend, script):
    if backend == "slurm":
        o = re.search(r"^#SBATCH --output=(.*)$", script, re.M)
        e = re.search(r"^#SBATCH --error=(.*)$", script, re.M)
    elif backend == "sge":
        o = re.search(r"^#\$ -o (.*)$", script, re.M)
        e = re.search(r"^#\$ -e (.*)$", script, re.M)
    else:
        o = re.search(r"^#BSUB -oo (.*)$", script, re.M)
        e = re.search(r"^#BSUB -eo (.*)$", script, re.M)
    return (o.group(1) if o else None), (e.group(1) if e else None)


def drive_script(item):
    rid, scn, variant = item
    sb = cli_defs.sandbox()
    sb.reset()
    wd = os.path.join(sb.proj, DIRS[scn["dir"]])
    os.makedirs(wd)
    foreign = os.path.join(sb.root, "elsewhere")
    os.makedirs(foreign, exist_ok=True)
    for f in os.listdir(foreign):
        os.remove(os.path.join(foreign, f))
    text = spec_text(scn["cmds"], scn["nl"])
    conf = {"backend": scn["backend"]}
    if scn["backend"] == "slurm" and scn["logmode"] != "full":
        conf["backend.slurm.log_mode"] = scn["logmode"]
    sb.write(".gwfconf.json", json.dumps(conf))
    sb.write("workflow.py", "from gwf import Workflow, AnonymousTarget\ngwf = Workflow()\n"
             "gwf.target_from_template('t', AnonymousTarget(inputs=[], outputs=['never-made'], options={}, working_dir=%r, spec=%r))\n" % (wd, text))
    r, script = submitted_script(sb, scn["backend"])
    obs = {"exit": r.exit_code if r.exc is None and script is not None else -1, "spec_verbatim": False, "ran": False, "echoed": [], "created_in_wd": [],
           "created_elsewhere": [], "pwd_ok": True, "job_failed": False, "stdout_log": "absent", "stderr_log": "absent", "gwf_logs_ok": False}
    if script is not None:
        want = text if text.endswith("\n") else text + "\n"
        obs["spec_verbatim"] = script.endswith(want) and (len(script) == len(want) or script[-len(want) - 1] == "\n")
        o, e = parse_redirects(scn["backend"], script)
        spath = os.path.join(sb.root, "job.sh")
        with open(spath, "w") as f:
            f.write(script)
        try:
            fo = open(o, "wb") if o else open(os.devnull, "wb")
            fe = open(e, "wb") if e else fo
        except OSError:
            # the scheduler cannot open the files the directives name (gwf only creates <project>/.gwf/logs): the job
            # dies before the spec runs - an observation (nothing echoed, no logs), not a failure of the harness
            fo = fe = None
        env = dict(os.environ, SLURM_JOBID="1", HOME="/home/someone")
        if fo is not None:
            p = subprocess.run(["bash", spath], cwd=foreign, stdout=fo, stderr=fe, env=env, timeout=60)
            fo.close()
            if fe is not fo:
                fe.close()
        obs["ran"] = fo is not None
        obs["job_failed"] = fo is None or p.returncode != 0
        outtxt = open(o, errors="replace").read() if o and o != "/dev/null" and os.path.exists(o) else ""
        errtxt = open(e, errors="replace").read() if e and os.path.exists(e) else ""
        lines = outtxt.splitlines()
        obs["echoed"] = [OUT[ln] for ln in lines if ln in OUT]
        pw = [ln[4:] for ln in lines if ln.startswith("PWD=")]
        obs["pwd_ok"] = all(os.path.realpath(x) == os.path.realpath(wd) for x in pw) and (len(pw) == sum(1 for c in _executed(scn["cmds"]) if c["c"] == "Pwd"))
        obs["created_in_wd"] = sorted(f for f in os.listdir(wd) if f.startswith("made"))
        obs["created_elsewhere"] = sorted(f for d in (foreign, sb.proj, sb.root) for f in os.listdir(d) if f.startswith("made"))
        logdir = os.path.join(sb.proj, ".gwf", "logs")
        so, se = os.path.join(logdir, "t.stdout"), os.path.join(logdir, "t.stderr")
        if os.path.exists(so) and "out-marker" in open(so, errors="replace").read():
            obs["stdout_log"] = "stdout"
        if os.path.exists(se) and "err-marker" in open(se, errors="replace").read():
            obs["stderr_log"] = "stderr"
        elif os.path.exists(so) and "err-marker" in open(so, errors="replace").read():
            obs["stderr_log"] = "in_stdout"
        if scn["logmode"] != "none":
            r1 = sb.gwf(["logs", "--no-pager", "t"])
            ok = r1.exit_code == 0 and "out-marker" in (r1.stdout or "")
            if scn["logmode"] == "full":
                r2 = sb.gwf(["logs", "--no-pager", "-e", "t"])
                ok = ok and r2.exit_code == 0 and "err-marker" in (r2.stdout or "")
            obs["gwf_logs_ok"] = ok
    return {"id": rid, "scn": dict(scn, variant=variant), "obs": obs}


def _executed(cmds):
    out = []
    for c in cmds:
        out.append(c)
        if c["c"] == "Fail":
            break
    return out


def drive_logclean(item):
    rid, scn, variant = item
    sb = cli_defs.sandbox()
    sb.reset()
    # target names may contain dots; a log belongs to the target named by everything before its last extension
    names = [{"A": "alpha", "B": "bravo", "Gone1": "gone1", "Gone2": "gone.two"},
             {"A": "alpha", "B": "bravo.v2", "Gone1": "alpha.old", "Gone2": "bravo"}][variant % 2]
    lines = ["from gwf import Workflow", "gwf = Workflow()"] + ["gwf.target(%r, inputs=[], outputs=[%r]) << 'echo'" % (names[t], "o_" + t) for t in scn["current"]]
    sb.write("workflow.py", "\n".join(lines) + "\n")
    conf = {"backend": "slurm"}
    if not scn["enabled"]:
        conf["clean_logs"] = False
    sb.write(".gwfconf.json", json.dumps(conf))
    for t in scn["present"]:
        sb.write(".gwf/logs/%s.stdout" % names[t], "old out")
        sb.write(".gwf/logs/%s.stderr" % names[t], "old err")
    r = sb.gwf(["run"] + (["--dry-run"] if scn["dryrun"] else []))
    inv = {v: k for k, v in names.items()}
    left = set()
    for f in os.listdir(sb.path(".gwf/logs")):
        base = f.rsplit(".", 1)[0]
        if base in inv:
            left.add(inv[base])
    return {"id": rid, "scn": dict(scn, variant=variant), "obs": {"exit": r.exit_code if r.exc is None else -1, "after": sorted(left)}}


DRIVERS = {"twoopts": drive_twoopts, "option": drive_option, "sgemem": drive_sgemem, "script": drive_script, "logclean": drive_logclean}


def drive(item):
    return DRIVERS[item[1]["kind"]](item)
