"""LocalPool: design checks, scenario generation and search-style trace validation."""
import json
import os
import random

from . import tlc
from .common import Machinery, dump_json, pmap


def consts(cores=1, tasks=3, limits=(0, 1), maxnow=8, attrs=((), ("startfails",), ("logfails",))):
    return {
        "Cores": cores,
        "MaxTasks": tasks,
        "Limits": "{" + ", ".join(str(x) for x in limits) + "}",
        "MaxNow": maxnow,
        "Attrs": "{" + ", ".join("{" + ", ".join('"%s"' % a for a in at) + "}" for at in attrs) + "}",
    }


def _cfg(ctx, head, cs, extra=""):
    path = ctx.tmp("LocalPool-%d.cfg" % random.getrandbits(32))
    with open(path, "w") as f:
        f.write(open(os.path.join(tlc.SPEC_DIR, head)).read() + extra)
        f.write("CONSTANTS\n" + "".join(" %s = %s\n" % kv for kv in cs.items()))
    return path


def mc(ctx, name, cs, liveness=False, timeout=3000):
    if liveness:
        path = ctx.tmp("LocalPoolLive-%d.cfg" % random.getrandbits(32))
        with open(path, "w") as f:
            f.write("SPECIFICATION LiveSpec\nPROPERTY C13_Live\nCHECK_DEADLOCK FALSE\nCONSTANTS\n" + "".join(" %s = %s\n" % kv for kv in cs.items()))
    else:
        path = _cfg(ctx, "LocalPool_mc_head.cfg", cs)
    res = tlc.run_tlc("LocalPool", path, workers=16, timeout=timeout, xmx="10g", scratch=ctx.scratch, coverage=not liveness)
    dead = [a for a, (d, t) in res.coverage.items() if t == 0 and a not in ("Init",)]
    if dead:
        raise Machinery("LocalPool design check %s: actions never taken: %s" % (name, dead))
    if res.violated:
        raise Machinery("LocalPool design check %s violated %s:\n%s" % (name, res.violated, res.errtext))
    ctx.add_design("LocalPool:" + name, res, json.dumps(cs))
    return res


def gen(ctx, cs, depth, num, seed, badkinds=()):
    path = _cfg(ctx, "LocalPool_gen_head.cfg", dict(cs, D=depth, BadKinds="{" + ", ".join('"%s"' % k for k in badkinds) + "}"))
    res = tlc.run_tlc("LocalPoolGen", path, simulate=num, depth=depth + 1, seed=seed, timeout=900, scratch=ctx.scratch, xmx="4g")
    allv = [v for v in res.values if isinstance(v, dict) and "ev" in v]
    if not allv:
        raise Machinery("LocalPoolGen produced nothing:\n" + res.stdout[-2000:])
    groups = {}
    for v in allv:
        groups.setdefault(json.dumps(v["ev"][:-1]) if v["ev"] else "", []).append(v)
    rng = random.Random(seed)
    return [rng.choice(g) for _, g in sorted(groups.items())]


def _validate_one(job):
    cores, focus, path, ids, scratch, progress = job
    cfg = path + ".cfg"
    with open(cfg, "w") as f:
        f.write("SPECIFICATION TraceSpec\nINVARIANT %s\nCHECK_DEADLOCK FALSE\nCONSTANTS\n" % ("Progress" if progress else "Accepted"))
        for k, v in dict(consts(cores=cores, tasks=64, maxnow=100000), Focus='"%s"' % focus).items():
            f.write(" %s = %s\n" % (k, v))
    res = tlc.run_tlc("LocalPoolTrace", cfg, env={"TRACE_FILE": path}, timeout=1800, scratch=scratch, xmx="4g")
    os.remove(cfg)
    if progress:
        best = {}
        for v in res.values:
            if isinstance(v, dict) and "reached" in v:
                best[v["id"]] = max(best.get(v["id"], 0), v["reached"])
        return best
    return {v["id"] for v in res.values if isinstance(v, dict) and v.get("ok")}


def validate(ctx, traces, focus="all", progress=False):
    """Returns the set of accepted trace ids (or {id: furthest position} with progress=True)."""
    by_cores = {}
    for t in traces:
        if t["events"]:
            by_cores.setdefault(t["cores"], []).append(t)
    jobs = []
    for cores, ts in by_cores.items():
        k = max(1, min(8, len(ts) // 150 + 1))
        for c in range(k):
            chunk = ts[c::k]
            if chunk:
                path = ctx.tmp("pooltrace-%d-%s-%d-%d.json" % (cores, focus, c, random.getrandbits(32)))
                dump_json(path, chunk)
                jobs.append((cores, focus, path, [t["id"] for t in chunk], ctx.scratch, progress))
    outs = pmap(_validate_one, jobs, procs=min(16, len(jobs)))
    for j in jobs:
        if os.path.exists(j[2]):
            os.remove(j[2])
    if progress:
        best = {}
        for o in outs:
            best.update(o)
        return best
    acc = set()
    for o in outs:
        acc |= o
    return acc | {t["id"] for t in traces if not t["events"]}


# --------------------------------------------------------------------------
# The scenarios of the repository's own tests/backends/test_local.py, transcribed event for event (max_cores=1).
# They are driven and validated like every generated behaviour, so the specification is also bound to the
# executions the maintainers wrote down; `expect` is the final state each test asserts and is compared with the
# drained observation as an independent oracle (a specification that accepted something else would be too weak).
def _enq(deps=(), limit=0):
    return {"e": "Enqueue", "deps": list(deps), "limit": limit, "attrs": [], "nopair": True}


def _exit(t, rc=0):
    return {"e": "Exit", "t": t, "rc": rc}


PINNED = [
    ("test_successful_task_without_deps", [_enq(), _exit(0)], ["COMPLETED"]),
    ("test_successful_task_with_dependent", [_enq(), _enq([0]), _exit(0), _exit(1)], ["COMPLETED", "COMPLETED"]),
    ("test_task_with_dependent_submitted_later", [_enq(), _exit(0), _enq([0]), _exit(1)], ["COMPLETED", "COMPLETED"]),
    ("test_failing_task_without_deps", [_enq(), _exit(0, 1)], ["FAILED"]),
    ("test_failed_task_with_dependents_1", [_enq(), _enq([0]), _enq([1]), _exit(0, 1), {"e": "Cancel", "t": 0}], ["FAILED"] * 3),
    ("test_failed_task_with_dependents_2", [_enq(), _enq([0]), _enq([1]), _exit(0), _exit(1, 1), {"e": "Cancel", "t": 0}],
     ["COMPLETED", "FAILED", "FAILED"]),
    ("test_task_without_deps_times_out", [_enq(limit=1), {"e": "Tick"}], ["KILLED"]),
    ("test_task_without_deps_completes_within_timelimit", [_enq(limit=1), _exit(0)], ["COMPLETED"]),
    ("test_cancelled_task_without_deps", [_enq(), {"e": "Cancel", "t": 0}], ["CANCELLED"]),
    ("test_cancelled_task_with_dependents", [_enq(), _enq([0]), _enq([1]), {"e": "Cancel", "t": 0}], ["CANCELLED"] * 3),
    ("test_task_writes_log_file", [_enq(), _exit(0)], ["COMPLETED"]),
]


def pinned():
    return [{"cores": c, "ev": [dict(e) for e in ev], "pinned": name, "expect": exp}
            for c in (1, 2) for name, ev, exp in PINNED]


def pinned_mismatch(scn, trace):
    """None, or what differs between the final states the repository's test asserts and the drained observation."""
    if not trace["events"]:
        return "no event was applicable"
    st = trace["events"][-1]["obs"]["states"]
    got = [st.get(str(k)) for k in range(len(scn["expect"]))]
    if got != scn["expect"]:
        return "final states %s, the repository's test asserts %s" % (got, scn["expect"])
    ran = [str(k) for k, v in enumerate(scn["expect"]) if v == "COMPLETED"]
    if any(trace["logs"].get(k) != "ok" for k in ran):
        return "log files %s" % trace["logs"]
    return None
