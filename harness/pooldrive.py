"""Step the real local-pool Scheduler through a TLC-generated event sequence on
the virtual-time loop and record the observation after every event."""
import asyncio
import os
import shutil
import tempfile

import logging

from .vloop import FakeProc, VirtualLoop

logging.getLogger("gwf.backends.local").setLevel(logging.CRITICAL + 1)
logging.getLogger("asyncio").setLevel(logging.CRITICAL + 1)
import warnings  # noqa: E402

warnings.filterwarnings("ignore", category=RuntimeWarning, message="coroutine .* was never awaited")

NOWHERE = "/nonexistent-gwfverif-dir"


class PoolRun:
    def __init__(self, cores):
        from gwf.backends import local

        self.local = local
        self.loop = VirtualLoop()
        asyncio.set_event_loop(self.loop)
        self.wd = tempfile.mkdtemp(prefix="gwfverif-pool-")
        os.makedirs(os.path.join(self.wd, ".gwf", "logs"))
        self.procs = {}     # task id -> FakeProc
        self.spawned = []   # task ids in spawn order
        self._orig = asyncio.create_subprocess_shell
        asyncio.create_subprocess_shell = self._spawn
        self.sched = local.Scheduler(self.wd, cores)
        self.n = 0
        self.tids = []      # real task ids in order of acceptance; traces use the index (ids need only be unique)

    def index_of(self, tid):
        """Acceptance index of a task id handed out by the pool; a repeated or foreign id maps to an
        index that cannot match the specification's next id."""
        if tid in self.tids:
            return self.tids.index(tid)
        self.tids.append(tid)
        return len(self.tids) - 1

    def real(self, index):
        return self.tids[index] if 0 <= index < len(self.tids) else -1 - index

    async def _spawn(self, script, stdout=None, stderr=None, cwd=None, **kw):
        tid = int(script.split()[1])
        if cwd == NOWHERE:
            raise FileNotFoundError(2, "No such file or directory", cwd)
        p = FakeProc(self.loop, tid, stdout=b"out of %d\n" % tid, stderr=b"err of %d\n" % tid)
        self.procs[tid] = p
        self.spawned.append(tid)
        return p

    def close(self):
        asyncio.create_subprocess_shell = self._orig
        try:
            for t in list(self.sched.tasks.values()):
                t.cancel()
            self.loop.idle()
            for _ in range(4):
                if not self.loop.advance():
                    break
        except Exception:  # noqa: BLE001
            pass
        self.loop.close()
        asyncio.set_event_loop(None)
        shutil.rmtree(self.wd, ignore_errors=True)

    def call(self, coro):
        task = self.loop.create_task(coro)
        self.loop.idle()
        if task.done():
            if task.cancelled():
                return ("cancelled", None)
            if task.exception() is not None:
                return ("exc", task.exception())
            return ("ok", task.result())
        return ("pending", None)

    def observe(self):
        ts = self.sched.get_task_states()
        return {
            "n": self.n,
            "now": int(self.loop.time()),
            "states": {str(self.tids.index(k) if k in self.tids else k): v.name for k, v in ts.items()},
            "live": sorted(t for t, p in self.procs.items() if p.returncode is None),
            "spawned": list(self.spawned),
        }

    def apply_pair(self, e, c):
        """Enqueue and, in the same turn of the event loop, cancel the task just accepted (its worker has not
        taken a step yet).  Returns the two recorded events; nothing can be observed between them."""
        deps = sorted(d for d in e["deps"] if d < self.n)
        name = "task%d" % self.n

        async def both():
            tid = await self.sched.enqueue_task(name=name, script="task %d" % self.n, working_dir=self.wd,
                                                time_limit=e["limit"] if e["limit"] else None, deps=[self.real(d) for d in deps])
            self.tids_hint = tid
            await self.sched.cancel_task(tid)
            return tid

        status, tid = self.call(both())
        t = self.n
        rec1 = {"e": "Enqueue", "deps": deps, "limit": e["limit"], "attrs": [], "t": t,
                "tid_returned": self.index_of(tid) if status == "ok" else -1}
        self.n += 1
        rec1["obs"] = self.observe()
        rec2 = {"e": "Cancel", "t": t, "atonce": True, "obs": self.observe()}
        return [rec1, rec2]

    def apply(self, e):
        """Apply one generated event if it is applicable in the real pool; returns the
        recorded event (with observation) or None when skipped."""
        kind = e["e"]
        if kind == "Enqueue":
            deps = sorted(d for d in e["deps"] if d < self.n)
            attrs = list(e["attrs"])
            name = "task%d" % self.n
            if "logfails" in attrs:
                os.makedirs(os.path.join(self.wd, ".gwf", "logs", name + ".stdout"), exist_ok=True)
            status, tid = self.call(
                self.sched.enqueue_task(
                    name=name, script="task %d" % self.n,
                    working_dir=NOWHERE if "startfails" in attrs else self.wd,
                    time_limit=e["limit"] if e["limit"] else None, deps=[self.real(d) for d in deps],
                )
            )
            rec = {"e": "Enqueue", "deps": deps, "limit": e["limit"], "attrs": attrs, "t": self.n,
                   "tid_returned": self.index_of(tid) if status == "ok" else -1}
            self.n += 1
        elif kind == "Exit":
            p = self.procs.get(e["t"])
            if p is None or p.returncode is not None:
                return None
            p.exit(e["rc"])
            self.loop.idle()
            rec = {"e": "Exit", "t": e["t"], "rc": e["rc"]}
        elif kind == "Cancel":
            if e["t"] >= self.n:
                return None
            self.call(self.sched.cancel_task(self.real(e["t"])))
            rec = {"e": "Cancel", "t": e["t"]}
        elif kind == "Tick":
            w = self.loop.next_timer()
            if w is None or w <= self.loop.time():
                return None
            self.loop.advance()
            rec = {"e": "Tick"}
        else:
            raise ValueError(kind)
        rec["obs"] = self.observe()
        return rec


def drive(item):
    rid, scn = item
    run = PoolRun(scn["cores"])
    events = []
    try:
        evs, k = list(scn["ev"]), 0
        while k < len(evs):
            e = evs[k]
            nxt = evs[k + 1] if k + 1 < len(evs) else None
            if e["e"] == "Enqueue" and not e["attrs"] and not e.get("nopair") and nxt is not None and nxt["e"] == "Cancel" and nxt["t"] == run.n:
                events.extend(run.apply_pair(e, nxt))
                k += 2
                continue
            rec = run.apply(e)
            if rec is not None:
                events.append(rec)
            k += 1
        # drain: let every process end successfully and every timer fire, so that final states are observed
        for _ in range(200):
            alive = [t for t, p in run.procs.items() if p.returncode is None]
            if alive:
                rec = run.apply({"e": "Exit", "t": alive[0], "rc": 0})
            else:
                rec = run.apply({"e": "Tick"})
                if rec is None:
                    break
            if rec is not None:
                rec["drain"] = True
                events.append(rec)
        logs = {}
        for t in range(run.n):
            res = "ok"
            for suf, want in (("stdout", b"out of %d\n" % t), ("stderr", b"err of %d\n" % t)):
                p = os.path.join(run.wd, ".gwf", "logs", "task%d.%s" % (t, suf))
                if not os.path.isfile(p):
                    res = "missing"
                elif open(p, "rb").read() != want:
                    res = "wrong"
            logs[str(t)] = res
    finally:
        run.close()
    return {"id": rid, "cores": scn["cores"], "events": events, "logs": logs}


# --------------------------------------------------------------------------
# the server layer (C14): real Server.handle_connection coroutines fed by hand


class FakeWriter:
    def __init__(self):
        self.buf = b""
        self.closed = False

    def write(self, data):
        self.buf += data

    async def drain(self):
        return None

    def close(self):
        self.closed = True

    async def wait_closed(self):
        return None

    def take(self):
        lines = [ln for ln in self.buf.split(b"\n") if ln]
        self.buf = b""
        return lines


class Conn:
    def __init__(self, run, server):
        import json as _json

        self.json = _json
        self.run = run
        self.reader = asyncio.StreamReader(loop=run.loop)
        self.writer = FakeWriter()
        self.task = run.loop.create_task(server.handle_connection(self.reader, self.writer))
        run.loop.idle()

    def send_raw(self, data, eof=False):
        if data:
            self.reader.feed_data(data)
        if eof:
            self.reader.feed_eof()
        self.run.loop.idle()
        return self.writer.take()

    def request(self, kind, **msg):
        lines = self.send_raw((self.json.dumps(dict(__kind__=kind, **msg)) + "\n").encode())
        out = []
        for ln in lines:
            try:
                out.append(self.json.loads(ln))
            except ValueError:
                out.append({"__kind__": "unparseable"})
        return out

    @property
    def dead(self):
        return self.task.done()


BAD_KINDS = [
    "empty", "notjson", "array", "number", "string", "nokind", "unknownkind", "enq_missing", "cancel_unknown",
    "cancel_nonint", "invalid_utf8", "overlong", "partial_eof", "eof", "close", "state_unknown",
]


def bad_payload(kind, n):
    import json as _json

    J = lambda **k: (_json.dumps(k) + "\n").encode()  # noqa: E731
    return {
        "empty": (b"\n", False),
        "notjson": (b"hello world\n", False),
        "array": (b"[1, 2, 3]\n", False),
        "number": (b"5\n", False),
        "string": (b'"enqueue_task"\n', False),
        "nokind": (J(name="x", script="task 0"), False),
        "unknownkind": (J(__kind__="frobnicate"), False),
        "enq_missing": (J(__kind__="enqueue_task", name="x", working_dir="/tmp", deps=[]), False),
        "cancel_unknown": (J(__kind__="cancel_task", tid=7), False),
        "cancel_nonint": (J(__kind__="cancel_task", tid="abc"), False),
        "invalid_utf8": (b"\xff\xfe{\n", False),
        "overlong": (b"{" + b"x" * 70000 + b"\n", False),
        "partial_eof": (b'{"__kind__": "enqueue_task", "name": "x"', True),
        "eof": (b"", True),
        "close": (J(__kind__="close"), False),
        "state_unknown": (J(__kind__="get_task_state", tid=7), False),
    }[kind]


def drive_server(item):
    """Like drive(), but every pool operation goes through the wire protocol on one of two
    healthy client connections while a third client misbehaves as generated."""
    rid, scn = item
    run = PoolRun(scn["cores"])
    server = run.local.Server(run.sched)
    events = []
    healthy = [Conn(run, server), Conn(run, server)]
    bad = [None]
    k = [0]

    def hc():
        k[0] += 1
        return healthy[k[0] % 2]

    def states_event():
        rep = hc().request("get_task_states")
        ok = len(rep) == 1 and rep[0].get("__kind__") == "task_states"
        tasks = rep[0]["tasks"] if ok else {}
        tasks = {str(run.tids.index(int(k)) if str(k).lstrip("-").isdigit() and int(k) in run.tids else k): v for k, v in tasks.items()}
        return {"e": "ReqStates", "reply": tasks if ok else {"0": "NO-REPLY"}, "count": len(tasks) if ok else -1, "obs": run.observe()}

    from .common import GwfTimeout, time_limit

    hung = False
    current = [None]
    tl = time_limit(2)
    try:
      with tl:
        for e in list(scn["ev"]) + [{"e": "Enqueue", "deps": [], "limit": 0, "attrs": [], "fresh": True}, {"e": "States"}]:
            kind = e["e"]
            rec = None
            current[0] = e
            if kind == "Enqueue":
                c = Conn(run, server) if e.get("fresh") else hc()
                deps = sorted(d for d in e["deps"] if d < run.n)
                attrs = list(e["attrs"])
                name = "task%d" % run.n
                if "logfails" in attrs:
                    os.makedirs(os.path.join(run.wd, ".gwf", "logs", name + ".stdout"), exist_ok=True)
                msg = dict(name=name, script="task %d" % run.n, working_dir=NOWHERE if "startfails" in attrs else run.wd, deps=[run.real(d) for d in deps])
                if e["limit"]:
                    msg["time_limit"] = e["limit"]
                rep = c.request("enqueue_task", **msg)
                tid = rep[0].get("tid", -1) if len(rep) == 1 and rep[0].get("__kind__") == "task_enqueued" else -1
                tid = run.index_of(tid) if isinstance(tid, int) and tid != -1 else -1
                if tid == run.n or tid == -1:
                    pass
                rec = {"e": "ReqEnqueue", "deps": deps, "limit": e["limit"], "attrs": attrs, "reply": tid, "t": run.n}
                if len(run.sched.task_states) > run.n:
                    run.n += 1
            elif kind == "Cancel":
                if e["t"] < run.n:
                    hc().request("cancel_task", tid=run.real(e["t"]))
                    rec = {"e": "ReqCancel", "t": e["t"]}
            elif kind == "States":
                events.append(states_event())
                continue
            elif kind == "Bad":
                if bad[0] is None or bad[0].dead:
                    bad[0] = Conn(run, server)
                data, eof = bad_payload(e["kind"], run.n)
                bad[0].send_raw(data, eof)
                rec = {"e": "Bad", "kind": e["kind"], "conn_dead": bad[0].dead}
            elif kind == "BadEnq":
                c = Conn(run, server)
                bk = e["kind"]
                msg = dict(name="task%d" % run.n, script="task %d" % run.n, working_dir=run.wd, deps=[])
                if bk == "enq_extra":
                    msg["bogus"] = [1, 2]
                elif bk == "enq_unknown_dep":
                    msg["deps"] = [7]
                elif bk == "enq_deps_str":
                    msg["deps"] = "abc"
                elif bk == "enq_limit_str":
                    msg["time_limit"] = "abc"
                rep = c.request("enqueue_task", **msg)
                tid = rep[0].get("tid", -1) if len(rep) == 1 and rep[0].get("__kind__") == "task_enqueued" else -1
                tid = run.index_of(tid) if isinstance(tid, int) and tid != -1 else -1
                attrs = {"enq_extra": [], "enq_limit_str": ["badlimit"]}.get(bk, ["baddeps"])
                rec = {"e": "BadEnq", "kind": bk, "attrs": attrs, "reply": tid, "t": run.n}
                if len(run.sched.task_states) > run.n:
                    run.n += 1
            elif kind in ("Exit", "Tick"):
                rec = run.apply(e)
            if tl.fired:
                raise GwfTimeout("swallowed by the code under test")
            if rec is not None:
                rec["obs"] = run.observe()
                events.append(rec)
        for _ in range(200):
            if tl.fired:
                raise GwfTimeout("swallowed by the code under test")
            alive = [t for t, p in run.procs.items() if p.returncode is None]
            rec = run.apply({"e": "Exit", "t": alive[0], "rc": 0}) if alive else run.apply({"e": "Tick"})
            if rec is None:
                break
            events.append(rec)
        events.append(states_event())
        if tl.fired:
            raise GwfTimeout("swallowed by the code under test")
    except GwfTimeout:
        # the pool's event loop never became idle again (e.g. a connection handler spinning on EOF):
        # record an observation no specification state can match
        hung = True
        cur = current[0] or {}
        events.append({"e": "Bad", "kind": cur.get("kind", cur.get("e", "?")), "hung_event_loop": True,
                       "obs": {"n": -1, "now": -1, "states": {}, "live": [], "spawned": []}})
    finally:
        logs = {str(t): "ok" for t in range(run.n)}
        try:
            with time_limit(5):
                run.close()
        except BaseException:  # noqa: BLE001
            pass
    return {"id": rid, "cores": scn["cores"], "events": events, "logs": logs, "server": True, "hung": hung}
