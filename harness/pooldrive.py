"""Step the real local-pool Scheduler through a TLC-generated event sequence on
the virtual-time loop and record the observation after every event."""
import asyncio
import os
import shutil
import tempfile

import logging

from .vloop import FakeProc, VirtualLoop

logging.getLogger("gwf.backends.local").setLevel(logging.CRITICAL + 1)
logging.getLogger("asyncio").setLevel(logging.CRITICAL + 1)

NOWHERE = "/nonexistent-gwfverif-dir"


class PoolRun:
    def __init__(self, cores):
        from gwf.backends import local

        self.local = local
        self.loop = VirtualLoop()
        asyncio.set_event_loop(self.loop)
        self.wd = tempfile.mkdtemp(prefix="gwfverif-pool-")
        os.makedirs(os.path.join(self.wd, ".gwf", "logs"))
        self.procs = {}     # task id -> FakeProc
        self.spawned = []   # task ids in spawn order
        self._orig = asyncio.create_subprocess_shell
        asyncio.create_subprocess_shell = self._spawn
        self.sched = local.Scheduler(self.wd, cores)
        self.n = 0

    async def _spawn(self, script, stdout=None, stderr=None, cwd=None, **kw):
        tid = int(script.split()[1])
        if cwd == NOWHERE:
            raise FileNotFoundError(2, "No such file or directory", cwd)
        p = FakeProc(self.loop, tid, stdout=b"out of %d\n" % tid, stderr=b"err of %d\n" % tid)
        self.procs[tid] = p
        self.spawned.append(tid)
        return p

    def close(self):
        asyncio.create_subprocess_shell = self._orig
        try:
            for t in list(self.sched.tasks.values()):
                t.cancel()
            self.loop.idle()
            for _ in range(4):
                if not self.loop.advance():
                    break
        except Exception:  # noqa: BLE001
            pass
        self.loop.close()
        asyncio.set_event_loop(None)
        shutil.rmtree(self.wd, ignore_errors=True)

    def call(self, coro):
        task = self.loop.create_task(coro)
        self.loop.idle()
        if task.done():
            if task.cancelled():
                return ("cancelled", None)
            if task.exception() is not None:
                return ("exc", task.exception())
            return ("ok", task.result())
        return ("pending", None)

    def observe(self):
        ts = self.sched.get_task_states()
        return {
            "n": self.n,
            "now": int(self.loop.time()),
            "states": {str(k): v.name for k, v in ts.items()},
            "live": sorted(t for t, p in self.procs.items() if p.returncode is None),
            "spawned": list(self.spawned),
        }

    def apply(self, e):
        """Apply one generated event if it is applicable in the real pool; returns the
        recorded event (with observation) or None when skipped."""
        kind = e["e"]
        if kind == "Enqueue":
            deps = sorted(d for d in e["deps"] if d < self.n)
            attrs = list(e["attrs"])
            name = "task%d" % self.n
            if "logfails" in attrs:
                os.makedirs(os.path.join(self.wd, ".gwf", "logs", name + ".stdout"), exist_ok=True)
            status, tid = self.call(
                self.sched.enqueue_task(
                    name=name, script="task %d" % self.n,
                    working_dir=NOWHERE if "startfails" in attrs else self.wd,
                    time_limit=e["limit"] if e["limit"] else None, deps=deps,
                )
            )
            rec = {"e": "Enqueue", "deps": deps, "limit": e["limit"], "attrs": attrs, "t": self.n, "tid_returned": tid if status == "ok" else -1}
            self.n += 1
        elif kind == "Exit":
            p = self.procs.get(e["t"])
            if p is None or p.returncode is not None:
                return None
            p.exit(e["rc"])
            self.loop.idle()
            rec = {"e": "Exit", "t": e["t"], "rc": e["rc"]}
        elif kind == "Cancel":
            if e["t"] >= self.n:
                return None
            self.call(self.sched.cancel_task(e["t"]))
            rec = {"e": "Cancel", "t": e["t"]}
        elif kind == "Tick":
            w = self.loop.next_timer()
            if w is None or w <= self.loop.time():
                return None
            self.loop.advance()
            rec = {"e": "Tick"}
        else:
            raise ValueError(kind)
        rec["obs"] = self.observe()
        return rec


def drive(item):
    rid, scn = item
    run = PoolRun(scn["cores"])
    events = []
    try:
        for e in scn["ev"]:
            rec = run.apply(e)
            if rec is not None:
                events.append(rec)
        # drain: let every process end successfully and every timer fire, so that final states are observed
        for _ in range(200):
            alive = [t for t, p in run.procs.items() if p.returncode is None]
            if alive:
                rec = run.apply({"e": "Exit", "t": alive[0], "rc": 0})
            else:
                rec = run.apply({"e": "Tick"})
                if rec is None:
                    break
            if rec is not None:
                rec["drain"] = True
                events.append(rec)
        logs = {}
        for t in range(run.n):
            res = "ok"
            for suf, want in (("stdout", b"out of %d\n" % t), ("stderr", b"err of %d\n" % t)):
                p = os.path.join(run.wd, ".gwf", "logs", "task%d.%s" % (t, suf))
                if not os.path.isfile(p):
                    res = "missing"
                elif open(p, "rb").read() != want:
                    res = "wrong"
            logs[str(t)] = res
    finally:
        run.close()
    return {"id": rid, "cores": scn["cores"], "events": events, "logs": logs}
