"""Execute one TLC-generated GwfProject behaviour against the real gwf CLI
and record the trace GwfProjectTrace validates."""
import hashlib
import json
import os
import random
import re

from .props.cli_defs import mutating, sandbox
from .sandbox import BASE_TIME, parse_status_table, parse_submission

FIRST_ID = 1000
PERMS = [
    {"A": "alpha", "B": "bravo", "C": "charlie", "D": "delta"},
    {"A": "zeta", "B": "mid", "C": "beta", "D": "alef"},
    {"A": "t9", "B": "t10", "C": "T1", "D": "_t"},
    # names that are proper prefixes of one another (a selection by several names must not match by prefix)
    {"A": "Map", "B": "Map_index", "C": "Ma", "D": "Map_index_2"},
]
SUBMIT = {"slurm": "sbatch", "slurm_noacct": "sbatch", "sge": "qsub", "lsf": "bsub"}
CANCEL = {"slurm": "scancel", "slurm_noacct": "scancel", "sge": "qdel", "lsf": "bkill"}
QUERY = {"slurm": "squeue", "slurm_noacct": "squeue", "sge": "qstat", "lsf": "bjobs"}


def spec_text(t, v):
    return "echo %s version %d\n" % (t, v)


SUBMIT["local"] = CANCEL["local"] = QUERY["local"] = None


class Driver:
    def __init__(self, scn, variant):
        self.scn = scn
        self.variant = variant
        self.rng = random.Random(variant)
        self.sb = sandbox()
        self.backend = scn["backend"]
        self.gwf_backend = "slurm" if self.backend == "slurm_noacct" else self.backend
        self.w = scn["w"]
        self.T = sorted(self.w["T"])
        self.files = sorted({f for t in self.T for f in self.w["in"][t] + self.w["out"][t]})
        self.perm = PERMS[variant % len(PERMS)]
        self.inv = {v: k for k, v in self.perm.items()}
        self.specv = {t: 0 for t in self.T}
        self.jobs = []  # dicts: id (normalised), tgt, st, hold, gone
        self.clock = 1
        self.use_hash = False
        self.events = []
        self.order = self.T[:]
        self.rng.shuffle(self.order)
        self.sub = variant % 11 == 0  # run gwf in a fresh interpreter for a sample of traces
        # a quarter of the histories invoke every command from a sub-directory of the project (gwf finds the
        # workflow in a parent directory); the sub-directory holds unrelated files named like the workflow's
        self.subdir = "analysis" if variant % 4 == 3 else None
        # the scheduler's id counter: usually four digits; for some histories it crosses a digit boundary (9 -> 10,
        # 99 -> 100) while the history runs (ids are strings for gwf: "9" sorts after "10")
        self.first_id = [FIRST_ID, 8, FIRST_ID, 97, FIRST_ID, 6][variant % 6]
        self.pool = None       # the real local worker pool (local back end only)
        self.epoch_base = 0    # number of jobs accepted by earlier pools (ids restart with every pool)
        self.seen_enq = 0
        self.seen_cancel = 0
        self.raw2spec = {}     # pool task id -> specification job id (latest use of that raw id)
        self.spec_jobs = []  # target of the specification's job n (from the generated history)

    # -- concretisation ----------------------------------------------------
    def names(self, sel):
        from .sandbox import pattern_for

        return [pattern_for(self.perm[t], (self.variant + k + len(self.events)) % 6) for k, t in enumerate(sel)]

    def text(self, t, v):
        if self.backend == "local":
            from .localrun import job_script

            return job_script(self.sb.ctl, self.perm[t], "%s version %d" % (t, v))
        if self.variant % 2:
            # the usual way of writing a spec: an indented triple-quoted block (leading newline, common indentation)
            return "\n    echo %s version %d\n    true\n    " % (t, v)
        return spec_text(t, v)

    def write_workflow(self):
        lines = ["from gwf import Workflow", "gwf = Workflow()"]
        for k, t in enumerate(self.order):
            prot = sorted(self.w["prot"][t])
            ins, outs = sorted(self.w["in"][t]), sorted(self.w["out"][t])
            if self.variant % 3 == 1:
                # the other documented way of writing a target: create it, then add files to its lists in place
                lines.append(
                    "t%d = gwf.target(%r, inputs=%r, outputs=%r%s) << %r"
                    % (k, self.perm[t], ins[:-1], outs[:-1], ", protect=%r" % prot if prot else "", self.text(t, self.specv[t]))
                )
                if ins:
                    lines.append("t%d.inputs.append(%r)" % (k, ins[-1]))
                if outs:
                    lines.append("t%d.outputs.extend([%r])" % (k, outs[-1]))
                continue
            lines.append(
                "gwf.target(%r, inputs=%r, outputs=%r%s) << %r"
                % (self.perm[t], ins, outs, ", protect=%r" % prot if prot else "", self.text(t, self.specv[t]))
            )
        self.sb.write("workflow.py", "\n".join(lines) + "\n")

    def write_conf(self):
        conf = {"backend": self.gwf_backend}
        if self.use_hash:
            conf["use_spec_hashes"] = True
        if self.backend == "slurm_noacct":
            conf["backend.slurm.accounting_enabled"] = False
        if self.backend == "local" and self.pool is not None:
            conf["backend.local.port"] = self.pool.port
            conf["backend.local.host"] = "127.0.0.1"
        self.sb.write(".gwfconf.json", json.dumps(conf))

    # how the scheduler may show one abstract job state: every code here has exactly one class in SchedSem.tla
    SHOW = {
        "squeue": {"PD": ["PD", "CF", "RQ", "RH", "SE"], "R": ["R", "CG"], "OK": ["CD"], "FAIL": ["F", "TO", "OOM", "NF", "PR", "BF", "DL"], "CA": ["CA"]},
        "sacct": {"PD": ["PENDING", "REQUEUED", "RESIZING"], "R": ["RUNNING"], "OK": ["COMPLETED"],
                  "FAIL": ["FAILED", "TIMEOUT", "OUT_OF_MEMORY", "NODE_FAIL", "PREEMPTED", "BOOT_FAIL", "DEADLINE"], "CA": ["CANCELLED by 0", "CANCELLED"]},
        "qstat": {"R": ["r", "t", "Rr"]},
        "bjobs": {"PD": ["PEND", "WAIT"], "R": ["RUN"], "OK": ["DONE"], "FAIL": ["EXIT"], "CA": ["EXIT"]},
    }

    def show(self, source, j, st=None):
        """The code `source` prints for job j (seeded per trace and job; the first code of each list is
        the plain one and is used for half of the jobs, the others cycle through the list)."""
        codes = self.SHOW[source][st or j["st"]]
        r = random.Random(self.variant * 7919 + j["id"] * 31 + len(source))
        return codes[0] if r.random() < 0.5 else codes[(self.variant + j["id"]) % len(codes)]

    def render(self):
        if self.backend == "local":
            return
        sq, sa, qs, bj = [("77", "PD"), ("78", "R")], [("77", "PENDING"), ("78", "RUNNING")], [("77", "qw")], [("77", "PEND")]
        for j in self.jobs:
            if j["gone"]:
                continue
            rid = str(j["id"] + self.first_id - 1)
            st = j["st"]
            # with accounting, a fifth of the jobs are ones whose accounting record lags behind the controller: once
            # finished they are still listed by squeue with their final code while sacct shows their last live state
            lag = self.backend == "slurm" and st in ("OK", "FAIL", "CA") and random.Random(self.variant * 131 + j["id"]).random() < 0.35
            if st in ("PD", "R"):
                sq.append((rid, self.show("squeue", j)))
                qs.append((rid, ("hqw" if any(self.job(k)["st"] in ("PD", "R", "E") for k in j["hold"]) else "qw") if st == "PD" else self.show("qstat", j)))
            if st == "E":
                # alive in the queue, shown with a code gwf has no class for (only generated for sge, lsf, slurm_noacct)
                sq.append((rid, "SI"))
                qs.append((rid, "Eqw"))
            if lag:
                sq.append((rid, self.show("squeue", j)))
                sa.append((rid, self.show("sacct", j, "R" if j.get("ran") else "PD")))
            elif self.backend == "slurm" and st == "PD" and random.Random(self.variant * 17 + j["id"]).random() < 0.4:
                pass        # accounting is written asynchronously: no record yet of a job the queue already lists
            else:
                sa.append((rid, "PENDING" if st == "E" else self.show("sacct", j)))
            bj.append((rid, "UNKWN" if st == "E" else self.show("bjobs", j)))
        self.sb.render(squeue=sq, sacct=sa, qstat=qs, bjobs=bj)

    def job(self, jid):
        return self.jobs[jid - 1]

    # -- projection ---------------------------------------------------------
    def norm_id(self, raw):
        try:
            return int(str(raw)) - self.first_id + 1 if str(raw) == str(int(str(raw))) else -7
        except ValueError:
            return -7

    # -- the local back end: ids are the pool's task ids, which restart with every pool -------------
    def start_pool(self):
        from .localrun import Pool

        self.pool = Pool(self.sb.proj, self.sb.ctl)
        self.seen_enq = self.seen_cancel = 0
        self.trk_epoch = {}     # target -> normalised id its tracked raw value stands for
        self.write_conf()

    def stop_pool(self):
        if self.pool is not None:
            self.pool.stop()
            self.epoch_base += len(self.pool.enqueued)
            self.pool = None

    def local_after_trk(self, raw):
        """Tracked raw ids -> specification ids: a value written in the current pool epoch is
        epoch_base + raw + 1; an older value keeps the id it stood for when it was written."""
        out = {t: 0 for t in self.T}
        if not isinstance(raw, dict):
            return out
        for n, j in raw.items():
            t = self.inv.get(n)
            if t not in out:
                continue
            known = self.local_trk.get(t)
            if known is not None and known[0] == j:
                out[t] = known[1]
            else:
                out[t] = -7
        return out

    def local_sync(self):
        """Turn what the pool did by itself since the last look into events: tasks that started, and
        held tasks that ended without running because a prerequisite did not complete."""
        states = self.pool.settle()
        for j in self.jobs:
            if j["gone"] or j.get("epoch") != self.epoch_base:
                continue
            st = states.get(j["raw"])
            if j["st"] == "PD" and st in ("RUNNING", "COMPLETED") and not j.get("started"):
                j["started"] = True
                j["st"] = "R"
                self.events.append({"act": "JobStart", "t": j["tgt"], "j": j["id"]})
            elif j["st"] == "PD" and st in ("FAILED", "CANCELLED", "KILLED"):
                j["st"] = "FAIL" if st in ("FAILED", "KILLED") else "CA"
                self.events.append({"act": "JobInherit", "t": j["tgt"], "j": j["id"], "st": j["st"]})
            elif j["st"] == "R" and st in ("FAILED", "CANCELLED", "KILLED", "COMPLETED"):
                # the driver neither released nor cancelled this job, yet it is over
                j["st"] = "CA" if st == "CANCELLED" else "FAIL"
                self.events.append({"act": "JobVanished", "t": j["tgt"], "j": j["id"], "st": st})

    def read_tracked(self):
        """The target -> job id map as gwf itself would load it in its next invocation (whatever files it keeps it
        in); None = nothing recorded, "UNREADABLE" = gwf's own loader fails on what is on disk."""
        try:
            from gwf.backends.base import TrackingBackend

            class _NoScheduler:
                def get_job_states(self, ids):
                    return {}

            tb = TrackingBackend(working_dir=self.sb.proj, name=self.gwf_backend, ops=_NoScheduler())
            d = getattr(tb, "_tracked_jobs")
            return dict(d) if d else None
        except (ValueError, OSError):
            return "UNREADABLE"
        except Exception:  # noqa: BLE001   (the loader's interface changed: fall back to the documented file)
            return self.sb.read_json(".gwf/%s-backend-tracked.json" % self.gwf_backend)

    def after(self):
        sb = self.sb
        trk_raw = self.read_tracked()
        hsh_raw = sb.read_json(".gwf/spec-hashes.json")
        trk_ok = trk_raw != "UNREADABLE"
        hsh_ok = hsh_raw != "UNREADABLE"
        trk = {t: 0 for t in self.T}
        if self.backend == "local":
            trk = self.local_after_trk(trk_raw)
        elif isinstance(trk_raw, dict):
            for n, j in trk_raw.items():
                if n in self.inv and self.inv[n] in trk:
                    trk[self.inv[n]] = self.norm_id(j)
        from gwf.core import hash_spec

        hsh = {t: -1 for t in self.T}
        if isinstance(hsh_raw, dict):
            for n, h in hsh_raw.items():
                t = self.inv.get(n)
                if t in hsh:
                    hsh[t] = -2
                    for v in range(self.specv[t] + 1):
                        if hash_spec(self.text(t, v)) == h:
                            hsh[t] = v
        fs = {}
        for f in self.files:
            m = sb.mtime(f)
            if m is None:
                fs[f] = -1
            else:
                sec, ns = divmod(m, 10**9)
                k = sec - BASE_TIME
                fs[f] = k if ns == 0 and 0 <= k < 100000 else 999999
        return {"trk": trk, "hsh": hsh, "fs": fs}, trk_ok, hsh_ok

    def hashfile_sig(self):
        p = self.sb.path(".gwf/spec-hashes.json")
        try:
            return hashlib.sha1(open(p, "rb").read()).hexdigest() + str(os.stat(p).st_mtime_ns)
        except FileNotFoundError:
            return "absent"

    def other_files_sig(self):
        """everything in the project that is not a declared file of the workflow"""
        snap = self.sb.snapshot()
        return {k: v for k, v in snap.items() if k not in self.files}

    def gwf(self, args, **kw):
        if self.subdir:
            kw.setdefault("cwd", self.sb.path(self.subdir))
        return self.sb.gwf(args, sub=kw.pop("sub", self.sub), **kw)

    # -- steps ----------------------------------------------------------------
    def step_init(self, h):
        sb = self.sb
        # (a seventh of the projects live in a directory whose name has a bracket group, like "run[2]")
        sb.reset(first_id=self.first_id, projname="run[2]" if self.variant % 7 == 5 else "proj")
        self.use_hash = bool(h["useHash"])
        self.local_trk = {}
        if self.backend == "local":
            os.environ["GWFV_POOL_MARK"] = "pool-%d-%d" % (os.getpid(), self.variant)
            self.start_pool()
        self.write_workflow()
        self.write_conf()
        os.makedirs(sb.path(".gwf/logs"), exist_ok=True)
        sb.write("notes.txt", "an unrelated file\n")
        if self.variant % 5 == 2:
            os.symlink("run-that-was-cleaned-up", sb.path("latest"))      # a dangling link next to the workflow's files
        if self.subdir:
            for f in self.files:
                sb.write(os.path.join(self.subdir, f), "not a workflow file: %s\n" % f)
        sb.write(".gwf/logs/%s.stdout" % self.perm[self.T[0]], "an old log\n")
        for f, m in h["fs"].items():
            sb.set_file(f, m)
            if m is not None and m >= 0:
                self.clock = max(self.clock, m)
        self.clock = 1 if self.clock < 1 else self.clock
        self.render()
        self.events.append({"act": "Init", "w": self.w, "fs": h["fs"], "useHash": self.use_hash, "backend": self.backend})

    def observe_cmd(self, args, input=None, sub=None, killenv=None):
        """Run a gwf command; returns result, journal entries, and the standard observation fields."""
        sb = self.sb
        sig0 = self.hashfile_sig()
        dig0 = sb.digest()
        sb.new_calls()
        if killenv:
            r = sb.gwf_killing_writer(args, killenv)
        else:
            r = self.gwf(args, input=input) if sub is None else self.gwf(args, input=input, sub=sub)
        calls = sb.new_calls()
        after, trk_ok, hsh_ok = self.after()
        obs = {
            "exit": r.exit_code if r.exc is None else -1,
            "exc": repr(r.exc) if r.exc is not None else "",
            "after": after,
            "trk_ok": trk_ok,
            "hsh_ok": hsh_ok,
            "pure": sb.digest() == dig0 and not mutating(calls),
            "hashfile_same": self.hashfile_sig() == sig0,
            "sacct_called": any(c["cmd"] == "sacct" for c in calls),
            "stderr": (r.stderr or "")[-400:],
        }
        return r, calls, obs

    def step_status(self, h):
        if self.backend == "local":
            self.local_sync()
        r, calls, obs = self.observe_cmd(["status"] + self.names(h["sel"]))
        table, badl = parse_status_table(r.stdout)
        obs.update(act="Status", sel=h["sel"], table={self.inv.get(n, n): s for n, s in table.items()})
        if badl:
            obs["exit"] = -2
        self.events.append(obs)

    def step_dryrun(self, h):
        r, calls, obs = self.observe_cmd(["run", "--dry-run"] + self.names(h["sel"]))
        obs.update(act="DryRun", sel=h["sel"], dry=[self.inv.get(n, n) for n in re.findall(r"^Would submit (\S+)$", r.stderr or "", re.M)])
        self.events.append(obs)

    def step_run(self, h, rest):
        """h = RunBegin entry; rest = following history entries up to and including the run's terminator."""
        sb = self.sb
        if self.backend == "local":
            return self.step_run_local(h, rest)
        term = rest[-1]
        nsub = sum(1 for x in rest if x["act"] == "RunSubmit")
        cmd = SUBMIT[self.backend]
        faults = []
        sub = self.sub
        if term["act"] == "RunReject":
            faults = [(cmd, nsub + 1, self.rng.choice({"lsf": ["exit1", "stderr", "garbage"], "slurm": ["exit1", "stderr", "depfail", "depfail"],
                                                          "slurm_noacct": ["exit1", "stderr", "depfail", "depfail"]}.get(self.backend, ["exit1", "stderr"])))]
        elif term["act"] == "Crash":
            faults = [(cmd, nsub + 1, "killparent")]
            sub = True
        killenv = None
        if term["act"] == "CrashWrite":
            fname = "backend-tracked.json" if term["file"] == "trk" else "spec-hashes.json"
            occ = 1
            killenv = {"GWFV_KILL_FILE": fname, "GWFV_KILL_OCC": str(occ), "GWFV_KILL_POS": str(self.rng.choice([0, 1, 2, 99, 100, 101, 102, 200, 200, 201]))}
        sb.set_fault(faults)
        self.events.append({"act": "RunBegin", "sel": h["sel"]})
        r, calls, obs = self.observe_cmd(["run"] + self.names(h["sel"]), sub=sub, killenv=killenv)
        sb.clear_fault()
        rejected = None
        for c in calls:
            if c["cmd"] != cmd:
                continue
            p = parse_submission(c)
            t = self.inv.get(p["name"], str(p["name"]))
            if c["res"] == "rejected":
                rejected = t
                continue
            jid = self.norm_id(c["res"])
            hold = [self.norm_id(x) if not str(x).startswith("?") else -7 for x in p["deps"]]
            # (ids gwf made up - beyond what the scheduler handed out - are reported by the hold clause; the
            # simulated scheduler only honours holds on jobs it knows)
            self.jobs.append({"id": jid, "tgt": t, "st": "PD", "hold": [x for x in hold if 0 < x <= len(self.jobs)], "gone": False})
            self.events.append({"act": "RunSubmit", "t": t, "id": jid, "hold": hold, "kind": p["kind"], "bad": p["bad"]})
        killed = faults and faults[0][2] == "killparent" and rejected is not None
        if killenv and obs["exit"] == 137:
            obs.update(act="CrashWrite", file=term["file"], kill=killenv)
        elif killed:
            obs.update(act="Crash", after_n=nsub)
        elif rejected is not None:
            obs.update(act="RunReject", t=rejected, fault=faults[0][2] if faults else "")
        else:
            obs.update(act="RunEnd")
        self.events.append(obs)
        self.render()
        trouble = any(e.get("act") == "Cancel" and e.get("reqs") or (e.get("act") == "JobEnd" and not e.get("ok")) for e in self.events)
        if obs["act"] == "RunEnd" and ((self.scn.get("drain") and trouble) or self.rng.random() < 0.25):
            self.adversarial_drain()   # (with "drain": every recovery run after a failure or cancellation)
            self.step_status({"sel": []})   # look at the result at once (a status query is always legal)

    def step_run_local(self, h, rest=()):
        """Interruptions on the local back end: the pool fails on the k-th enqueue request (the connection
        drops: RunReject), the gwf process is killed when its k-th request arrives (Crash), or gwf dies inside
        the final write of a state file (CrashWrite, same killing writer as for the cluster back ends)."""
        self.local_sync()
        term = rest[-1] if rest else {"act": "RunEnd"}
        nsub = sum(1 for x in rest if x["act"] == "RunSubmit")
        self.events.append({"act": "RunBegin", "sel": h["sel"]})
        pool = self.pool
        pool.run_enq, nref = 0, len(pool.refused)
        killenv, killed = None, []
        if term["act"] == "RunReject":
            pool.fault = (nsub + 1, None)
            r, calls, obs = self.observe_cmd(["run"] + self.names(h["sel"]), sub=False)
        elif term["act"] == "Crash":
            import subprocess
            import sys

            sig0, dig0 = self.hashfile_sig(), self.sb.digest()
            cwd = self.sb.path(self.subdir) if self.subdir else self.sb.proj
            p = subprocess.Popen([sys.executable, "-c", "from gwf.cli import main; main()", "run"] + self.names(h["sel"]), cwd=cwd,
                                 env=self.sb.env(), stdout=subprocess.PIPE, stderr=subprocess.PIPE, text=True)

            def kill():
                import signal
                import time as _t

                killed.append(True)
                os.kill(p.pid, signal.SIGKILL)
                for _ in range(400):      # the client is dead before the pool goes on
                    try:
                        if open("/proc/%d/stat" % p.pid).read().rsplit(")", 1)[-1].split()[0] == "Z":
                            break
                    except OSError:
                        break
                    _t.sleep(0.005)

            pool.fault = (nsub + 1, kill)
            out, err = p.communicate(timeout=120)
            after, trk_ok, hsh_ok = self.after()
            obs = {"exit": p.returncode, "exc": "", "after": after, "trk_ok": trk_ok, "hsh_ok": hsh_ok, "pure": False,
                   "hashfile_same": self.hashfile_sig() == sig0, "sacct_called": False, "stderr": (err or "")[-400:]}
        elif term["act"] == "CrashWrite":
            fname = "backend-tracked.json" if term["file"] == "trk" else "spec-hashes.json"
            killenv = {"GWFV_KILL_FILE": fname, "GWFV_KILL_OCC": "1", "GWFV_KILL_POS": str(self.rng.choice([0, 1, 2, 99, 100, 101, 102, 200, 200, 201]))}
            r, calls, obs = self.observe_cmd(["run"] + self.names(h["sel"]), killenv=killenv)
        else:
            r, calls, obs = self.observe_cmd(["run"] + self.names(h["sel"]), sub=False)
        pool.fault = None
        new = self.pool.enqueued[self.seen_enq:]
        self.seen_enq = len(self.pool.enqueued)
        for tid, name, deps in new:
            t = self.inv.get(name, str(name))
            jid = len(self.jobs) + 1
            ok = isinstance(deps, list) and all(isinstance(d, int) for d in deps)
            # prerequisite ids as the pool received them, read through the ids handed out so far
            hold = [self.raw2spec.get(d, -7) for d in deps] if ok else [-7]
            self.raw2spec[tid] = jid
            self.jobs.append({"id": jid, "raw": tid, "epoch": self.epoch_base, "tgt": t, "st": "PD",
                              "hold": [x for x in hold if 0 < x <= len(self.jobs)], "gone": False})
            self.local_trk[t] = (tid, jid)
            self.events.append({"act": "RunSubmit", "t": t, "id": jid, "hold": hold, "kind": "local" if hold else "none", "bad": ""})
        obs["after"] = self.after()[0]   # tracked ids are interpreted with the submissions just recorded
        refused = [self.inv.get(n, str(n)) for n in pool.refused[nref:]]
        if killenv and obs["exit"] == 137:
            obs.update(act="CrashWrite", file=term["file"], kill=killenv)
        elif killed:
            obs.update(act="Crash", after_n=nsub)
        elif refused:
            obs.update(act="RunReject", t=refused[0], fault="pool failed on the request")
        else:
            obs.update(act="RunEnd")
        self.events.append(obs)
        self.local_sync()

    def step_pool_restart(self, h):
        self.stop_pool()
        for j in self.jobs:
            if j["st"] in ("PD", "R"):
                j["st"] = "CA"
            j["gone"] = True
        self.kill_marked()
        self.start_pool()
        self.events.append({"act": "PoolRestart"})

    def kill_marked(self):
        mark = os.environ.get("GWFV_POOL_MARK", "").encode()
        if not mark:
            return
        import signal

        for pid in os.listdir("/proc"):
            if pid.isdigit() and int(pid) != os.getpid():
                try:
                    if mark in open("/proc/%s/environ" % pid, "rb").read():
                        os.kill(int(pid), signal.SIGKILL)
                except OSError:
                    pass

    def step_queryfail(self, h):
        cmd = QUERY[self.backend]
        if self.backend == "lsf" and not any(True for _ in self.tracked_ids()):
            cmd = None  # bjobs is only called for tracked jobs: nothing to fail
        if self.backend == "slurm" and self.rng.random() < 0.5 and any(True for _ in self.tracked_ids()):
            cmd = "sacct"
        if cmd is None:
            return
        self.sb.set_fault([(cmd, 1, self.rng.choice(["exit1", "stderr"]))])
        r, calls, obs = self.observe_cmd(["run"] + self.names(h["sel"]))
        self.sb.clear_fault()
        obs.update(act="QueryFail", sel=h["sel"], failed_cmd=cmd)
        self.events.append(obs)

    def tracked_ids(self):
        raw = self.sb.read_json(".gwf/%s-backend-tracked.json" % self.gwf_backend)
        return raw.values() if isinstance(raw, dict) else []

    def step_touch(self, h):
        sb = self.sb
        before_m = {f: sb.mtime(f) for f in self.files}
        before_c = {f: open(sb.path(f), "rb").read() for f in self.files if before_m[f] is not None}
        others0 = self.other_files_sig()
        # The file system clock is coarse (files touched within one tick get equal times), which would
        # hide a wrong touch order.  Observe the order of the touch events themselves: in this process
        # pathlib.Path.touch / os.utime are wrapped so that every touch event gets the next tick of an
        # (adversarial but legal) clock that advances with every call.
        import pathlib

        # Two clocks exist: the kernel stamps a file with its coarse clock (the start of the current tick), a
        # program that passes an explicit "now" passes a fine-grained reading, which lies *within* a tick.
        # Legal and unfriendly: every kernel stamp falls into a new tick; an explicit reading is taken half way
        # into the next tick, so that a kernel stamp made right after it (same tick) is older than it.
        seq, frac = [0], [0]
        base_ns = (BASE_TIME + 200000) * 10**9
        orig_touch, orig_utime = pathlib.Path.touch, os.utime

        def tick(path):
            seq[0] += 1
            frac[0] = 0
            t = base_ns + seq[0] * 10**9
            orig_utime(path, ns=(t, t))

        def reading(path):
            frac[0] += 1
            t = base_ns + (seq[0] + 1) * 10**9 + 5 * 10**8 + frac[0] * 10**6
            orig_utime(path, ns=(t, t))

        def touch(self_, *a, **k):
            orig_touch(self_, *a, **k)
            tick(self_)

        def utime(path, *a, **k):
            import time as _time

            orig_utime(path, *a, **k)
            times = a[0] if a else k.get("times")
            ns = k.get("ns")
            if times is None and ns is None:
                tick(path)
            else:
                m = ns[1] / 1e9 if ns is not None else times[1]
                if abs(m - _time.time()) < 5:      # an explicit reading of the current time
                    reading(path)

        pathlib.Path.touch, os.utime = touch, utime
        try:
            r, calls, obs = self.observe_cmd(["touch"] + self.names(h["sel"]), sub=False)
        finally:
            pathlib.Path.touch, os.utime = orig_touch, orig_utime
        # re-pin what gwf touched to logical times, preserving the observed order
        touched = [f for f in self.files if sb.mtime(f) is not None and sb.mtime(f) != before_m[f]]
        content_ok = all(open(sb.path(f), "rb").read() == (before_c[f] if f in before_c else b"") for f in self.files if sb.mtime(f) is not None)
        ranks = sorted({sb.mtime(f) for f in touched})
        newt = {f: self.clock + 1 + ranks.index(sb.mtime(f)) for f in touched}
        for f, m in newt.items():
            os.utime(sb.path(f), (BASE_TIME + m, BASE_TIME + m))
        if newt:
            self.clock = max(newt.values())
        others1 = self.other_files_sig()
        for k in list(others1):
            # the hash file is judged separately; the data file behind a symlinked output is touched with it
            if k == ".gwf/spec-hashes.json" or k.startswith("blob_"):
                others1.pop(k)
                others0.pop(k, None)
        after, _, _ = self.after()
        obs.update(act="Touch", sel=h["sel"], after=after, content_ok=content_ok, others_ok=others0 == others1,
                   touched=sorted(touched), pure=False)
        self.events.append(obs)

    def step_clean(self, h):
        sb = self.sb
        args = ["clean"] + (["--all"] if h["all"] else [])
        inp, declined = None, bool(h.get("declined"))
        nomatch = []
        if declined and self.rng.random() < 0.5:
            # names were given but match no target (typo, renamed target): nothing is selected
            nomatch = ["No_such_target", "zz*"] + (["-f"] if self.rng.random() < 0.5 else [])
        elif declined:
            inp = self.rng.choice(["n\n", "\n", "", "N\n"])
        elif not h["sel"]:
            if self.rng.random() < 0.5:
                args.append("-f")
            else:
                inp = "y\n"
        elif self.rng.random() < 0.3:
            args.append("-f")
        others0 = self.other_files_sig()
        r, calls, obs = self.observe_cmd(args + self.names(h["sel"]) + nomatch, input=inp)
        others1 = self.other_files_sig()
        for d in (others0, others1):
            d.pop(".gwf/spec-hashes.json", None)
        obs.update(act="Clean", sel=h["sel"], all=h["all"], declined=declined, others_ok=others0 == others1, args=args)
        self.events.append(obs)

    def step_cancel(self, h):
        sb = self.sb
        args = ["cancel"]
        inp, declined = None, bool(h.get("declined"))
        nomatch = []
        if declined and self.rng.random() < 0.5:
            nomatch = ["No_such_target", "zz*"] + (["-f"] if self.rng.random() < 0.5 else [])
        elif declined:
            inp = self.rng.choice(["n\n", "\n", ""])
        elif not h["sel"]:
            if self.rng.random() < 0.5:
                args.append("-f")
            else:
                inp = "y\n"
        refused = []
        if not declined:
            for sj in h.get("refused", []):
                rj = self.real_of(sj)
                if rj is not None:
                    refused.append(rj["id"])
        # (a third of the refusals are silent ones: non-zero exit, the complaint on stdout, nothing on stderr)
        sb.set_refuse([str(j + self.first_id - 1) for j in refused], silent=self.backend in ("sge", "lsf") and (self.variant + len(self.events)) % 3 == 0)
        r, calls, obs = self.observe_cmd(args + self.names(h["sel"]) + nomatch, input=inp)
        sb.set_refuse([])
        reqs = []
        if self.backend == "local":
            self.pool.settle()
            for tid in self.pool.cancels[self.seen_cancel:]:
                jid = self.raw2spec.get(tid, -7) if isinstance(tid, int) else -7
                reqs.append(jid)
                if 1 <= jid <= len(self.jobs) and self.job(jid)["st"] in ("PD", "R") and not self.job(jid)["gone"]:
                    self.job(jid)["st"] = "CA"
            self.seen_cancel = len(self.pool.cancels)
        for c in calls:
            if c["cmd"] == CANCEL[self.backend]:
                jid = self.norm_id(c["argv"][-1]) if c["argv"] else -7
                reqs.append(jid)
                if c["res"] == "ok" and 1 <= jid <= len(self.jobs) and self.job(jid)["st"] in ("PD", "R", "E"):
                    self.job(jid)["st"] = "CA"
        out = (r.stdout or "") + (r.stderr or "")
        reported = [self.inv.get(n, n) for n in re.findall(r"Target (\S+) could not be cancelled", out)]
        obs.update(act="Cancel", sel=h["sel"], refused=refused, reqs=reqs, reported=reported, declined=declined)
        self.events.append(obs)
        if self.backend == "local":
            if reqs:
                import time

                time.sleep(1.3)   # a task that is being killed changes state only after the pool's grace second
            self.local_sync()
        self.render()

    def step_env(self, h):
        sb = self.sb
        a = h["act"]
        if a in ("EditSource", "DeleteOutput") and sb.mtime(h["f"]) is None:
            return   # the generated step does not apply to the real project any more (history diverged): no event
        if a == "EditSource":
            self.clock += 1
            sb.set_file(h["f"], self.clock, content="edited at %d\n" % self.clock)
        elif a == "DeleteOutput":
            sb.set_file(h["f"], None)
        elif a == "EditSpec":
            self.specv[h["t"]] += 1
            self.write_workflow()
        elif a in ("Rename", "RenameBack"):
            if self.backend == "local":
                return
            self.perm0 = getattr(self, "perm0", None) or dict(self.perm)
            away = self.perm[h["t"]] != self.perm0[h["t"]]
            if away == (a == "Rename"):
                return      # does not apply to the real project (history diverged)
            self.perm = dict(self.perm)
            if a == "Rename":
                # a new, never used name; what is stored under the old one stays where it is
                self.renames = getattr(self, "renames", 0) + 1
                self.perm[h["t"]] = "%s_r%d" % (self.perm0[h["t"]], self.renames)
            else:
                self.perm[h["t"]] = self.perm0[h["t"]]
            self.inv = {v: k for k, v in self.perm.items()}
            self.write_workflow()
        elif a == "SetUseHash":
            self.use_hash = bool(h["v"])
            self.write_conf()
        self.events.append(dict(h))

    def real_of(self, spec_id):
        """The real job corresponding to the specification's job id: the k-th job of the
        same target (submission order inside one run may legally differ)."""
        if not (1 <= spec_id <= len(self.spec_jobs)):
            return None
        t = self.spec_jobs[spec_id - 1]
        k = self.spec_jobs[:spec_id].count(t)
        mine = [j for j in self.jobs if j["tgt"] == t]
        return mine[k - 1] if len(mine) >= k else None

    def make_output(self, f, when, jid):
        """A job writes its declared output - for a share of the jobs as a symbolic link to a data
        file that is not part of the workflow (a legal way to produce an output)."""
        sb = self.sb
        p = sb.path(f)
        if (self.variant + jid) % 4 == 0 and not os.path.islink(p):
            blob = "blob_%s_%d.dat" % (f, jid)
            sb.write(blob, "data behind %s\n" % f)
            if os.path.lexists(p):
                os.remove(p)
            os.symlink(blob, p)
            os.utime(p, (BASE_TIME + when, BASE_TIME + when))     # follows the link: the data file's time
        else:
            sb.set_file(f, when, content="made by job %d\n" % jid)

    def live_job_of(self, t, states):
        for j in reversed(self.jobs):
            if j["tgt"] == t and j["st"] in states:
                return j
        return None

    def step_sched_local(self, h):
        a = h["act"]
        if a != "JobEnd":
            return  # starts, skipped tasks and purges are what the real pool does by itself
        self.local_sync()
        j = self.real_of(h["j"])
        if j is None or j["st"] != "R" or j["gone"]:
            self.events.append(dict(h, j=0, tie=bool(h.get("tie"))))
            return
        if h["ok"]:
            self.clock += 1
            when = self.clock
            if h.get("tie"):
                ins = [x for x in (self.after()[0]["fs"][f] for f in self.w["in"][h["t"]]) if x >= 0]
                when = max(ins) if ins else when
            for f in self.w["out"][h["t"]]:
                self.make_output(f, when, j["id"])
        self.pool.release(self.perm[h["t"]], 0 if h["ok"] else 1)
        raw = j["raw"]
        self.pool.settle(want=lambda st: st.get(raw) in ("COMPLETED", "FAILED", "CANCELLED", "KILLED"))
        j["st"] = "OK" if h["ok"] else "FAIL"
        self.events.append({"act": "JobEnd", "t": h["t"], "j": j["id"], "ok": h["ok"], "tie": bool(h.get("tie"))})
        self.local_sync()

    def startable(self, j):
        afterok = self.backend != "sge"
        for k in j["hold"]:
            st = self.job(k)["st"] if 1 <= k <= len(self.jobs) else "OK"
            if st in ("PD", "R", "E") or (afterok and st != "OK"):
                return False
        return True

    def adversarial_drain(self):
        """A legal but unfriendly scheduler: among the jobs the holds it was really given allow to start,
        it always runs the most recently submitted one to its (successful) end first.  With correct holds
        this is an ordinary drain; with a missing hold a dependent finishes before its prerequisite."""
        while True:
            cand = [j for j in self.jobs if j["st"] == "PD" and not j["gone"] and self.startable(j)]
            running = [j for j in self.jobs if j["st"] == "R" and not j["gone"]]
            if not cand and not running:
                break
            j = max(cand, key=lambda x: x["id"]) if cand else max(running, key=lambda x: x["id"])
            if j["st"] == "PD":
                j["st"] = "R"
                j["ran"] = True
                self.events.append({"act": "JobStart", "t": j["tgt"], "j": j["id"]})
            j["st"] = "OK"
            self.clock += 1
            for f in self.w["out"][j["tgt"]]:
                self.make_output(f, self.clock, j["id"])
            self.events.append({"act": "JobEnd", "t": j["tgt"], "j": j["id"], "ok": True, "tie": False})
        self.render()

    def step_sched(self, h):
        if self.backend == "local":
            return self.step_sched_local(h)
        a = h["act"]
        want = {"JobStart": ("PD",), "JobEnd": ("R",), "Purge": ("OK", "FAIL", "CA"), "JobStick": ("PD",), "JobUnstick": ("E",)}[a]
        j = self.real_of(h["j"])
        if j is not None and (j["st"] not in want or (a == "Purge" and j["gone"])):
            j = None
        if j is not None and a == "JobStart":
            # the simulated scheduler honours the holds it was really given
            afterok = self.backend != "sge"
            for k in j["hold"]:
                st = self.job(k)["st"] if 1 <= k <= len(self.jobs) else "OK"
                if st in ("PD", "R", "E") or (afterok and st != "OK"):
                    j = None
                    break
        if j is None:
            return   # not applicable to the real job table (already done by the adversarial drain, or diverged): no event
        ev = dict(h)
        ev.setdefault("tie", False)
        ev["j"] = j["id"] if j else 0
        if j:
            if a == "JobStart":
                j["st"] = "R"
                j["ran"] = True
            elif a == "JobStick":
                j["st"] = "E"
            elif a == "JobUnstick":
                j["st"] = "PD"
            elif a == "JobEnd":
                j["st"] = "OK" if h["ok"] else "FAIL"
                if h["ok"]:
                    self.clock += 1
                    when = self.clock
                    if h.get("tie"):
                        ins = [self.after()[0]["fs"][f] for f in self.w["in"][h["t"]]]
                        ins = [x for x in ins if x >= 0]
                        if ins:
                            when = max(ins)
                    for f in self.w["out"][h["t"]]:
                        self.make_output(f, when, j["id"])
            else:
                j["gone"] = True
        self.events.append(ev)
        self.render()

    # -- main loop --------------------------------------------------------------
    def run(self):
        hist = self.scn["hist"]
        i = 0
        while i < len(hist):
            h = hist[i]
            a = h["act"]
            if a == "RunSubmit":
                self.spec_jobs.append(h["t"])
            if a == "Init":
                self.step_init(h)
            elif a == "Status":
                self.step_status(h)
            elif a == "DryRun":
                self.step_dryrun(h)
            elif a == "RunBegin":
                k = i + 1
                while k < len(hist) and hist[k]["act"] == "RunSubmit":
                    self.spec_jobs.append(hist[k]["t"])
                    k += 1
                if k < len(hist) and hist[k]["act"] in ("RunEnd", "RunReject", "Crash", "CrashWrite"):
                    rest = hist[i + 1 : k + 1]
                    i = k
                else:
                    # the behaviour was cut inside the run: let the run complete
                    rest = hist[i + 1 : k] + [{"act": "RunEnd"}]
                    i = k - 1
                self.step_run(h, rest)
            elif a in ("RunSubmit", "RunEnd", "RunReject", "Crash", "CrashWrite", "Halt"):
                pass  # consumed by step_run
            elif a == "QueryFail":
                self.step_queryfail(h)
            elif a == "Touch":
                self.step_touch(h)
            elif a == "Clean":
                self.step_clean(h)
            elif a == "Cancel":
                self.step_cancel(h)
            elif a in ("EditSource", "DeleteOutput", "EditSpec", "SetUseHash", "Rename", "RenameBack"):
                self.step_env(h)
            elif a in ("JobStart", "JobEnd", "Purge", "JobInherit", "JobStick", "JobUnstick"):
                self.step_sched(h)
            elif a == "PoolRestart":
                self.step_pool_restart(h)
            else:
                raise ValueError("unknown action %r" % a)
            i += 1
        return self.events


def drive(item):
    rid, scn, variant = item
    d = Driver(scn, variant)
    try:
        events = d.run()
    finally:
        if d.pool is not None:
            d.stop_pool()
            d.kill_marked()
    return {"id": rid, "backend": scn["backend"], "wf": scn["wf"], "variant": variant, "sub": d.sub, "events": events, "hist": scn["hist"]}
