"""GwfProject: design checks, behaviour generation (TLC -simulate), driving
the real CLI along a generated behaviour, and recording the trace."""
import json
import os
import random
import re

from . import tlc
from .common import Machinery

ALL_ACTIONS = [
    "Status", "DryRun", "Run", "Touch", "QueryFail", "Cancel", "Clean", "Reject", "Crash",
    "EditSource", "DeleteOutput", "EditSpec", "SetUseHash", "Purge", "JobFail", "Ties", "PoolRestart",
]


def tla_set(items):
    return "{" + ", ".join('"%s"' % x for x in items) + "}"


def consts(backend="slurm", persist=True, interleave=False, wfs=("pair",), jobs=4, env=1, faults=1, cmds=3,
           anyfs=False, allow=ALL_ACTIONS):
    return {
        "Backend": '"%s"' % backend,
        "PersistEachSubmit": "TRUE" if persist else "FALSE",
        "Interleave": "TRUE" if interleave else "FALSE",
        "WfNames": tla_set(wfs),
        "MaxJobs": jobs,
        "MaxEnv": env,
        "MaxFaults": faults,
        "MaxCmds": cmds,
        "AnyInitFs": "TRUE" if anyfs else "FALSE",
        "Allow": tla_set(allow),
    }


def write_cfg(path, head, cs, extra=""):
    with open(path, "w") as f:
        f.write(open(os.path.join(tlc.SPEC_DIR, head)).read())
        f.write(extra)
        f.write("CONSTANTS\n" + "".join(" %s = %s\n" % kv for kv in cs.items()))


def mc(ctx, name, cs, timeout=3000, allow_violation=False, drop=()):
    """Exhaustive design check of GwfProject under constants cs."""
    cfg = ctx.tmp("GwfProject-%s-%d.cfg" % (name, random.getrandbits(32)))
    write_cfg(cfg, "GwfProject_mc_head.cfg", cs)
    if drop:
        txt = open(cfg).read()
        for d in drop:
            txt = re.sub(r"^(INVARIANT|PROPERTY) %s\n" % d, "", txt, flags=re.M)
        open(cfg, "w").write(txt)
    res = tlc.run_tlc("GwfProject", cfg, workers=16, timeout=timeout, xmx="10g", scratch=ctx.scratch, allow_violation=allow_violation)
    if res.violated and not allow_violation:
        raise Machinery("GwfProject design check %s violated %s:\n%s" % (name, res.violated, res.errtext))
    if not res.violated:
        ctx.add_design("GwfProject:" + name, res, json.dumps(cs))
    return res


def gen(ctx, cs, depth, num, seed=None):
    """TLC -simulate on GwfProjectGen: returns a list of scenarios
    {wf, backend, hist:[{act,...}]}."""
    cfg = ctx.tmp("GwfProjectGen-%d.cfg" % random.getrandbits(32))
    cs = dict(cs, D=depth)
    cs["Allow"] = cs["Allow"][:-1] + ', "Halt"}' 
    write_cfg(cfg, "GwfProject_gen_head.cfg", cs)
    res = tlc.run_tlc(
        "GwfProjectGen", cfg, simulate=num, depth=depth + 1, seed=ctx.seed if seed is None else seed,
        timeout=900, scratch=ctx.scratch, xmx="4g",
    )
    allv = [v for v in res.values if isinstance(v, dict) and "hist" in v]
    if not allv:
        raise Machinery("GwfProjectGen produced no behaviour:\n" + res.stdout[-2000:])
    # TLC evaluates the emitting constraint on every candidate successor of the last
    # state of a behaviour: keep one candidate per behaviour (seeded choice)
    groups = {}
    for v in allv:
        groups.setdefault(json.dumps(v["hist"][:-1], sort_keys=True), []).append(v)
    rng = random.Random(ctx.seed if seed is None else seed)
    return [rng.choice(g) for _, g in sorted(groups.items())]


def _validate_one(job):
    backend, path, n, scratch = job
    cfg = path + ".cfg"
    write_cfg(cfg, "GwfProject_trace_head.cfg", consts(backend=backend, persist=True, interleave=False, wfs=("pair",), jobs=10000, env=10000, faults=10000, cmds=10000))
    res = tlc.run_tlc("GwfProjectTrace", cfg, env={"TRACE_FILE": path}, timeout=1800, scratch=scratch, xmx="4g")
    out = {}
    for v in res.values:
        if isinstance(v, dict) and "failed" in v and "id" in v:
            out[v["id"]] = v
    if len(out) != n:
        ids = [t["id"] for t in json.load(open(path))]
        missing = [i for i in ids if i not in out]
        keep = path + ".missing.json"
        json.dump([t for t in json.load(open(path)) if t["id"] in missing], open(keep, "w"))
        import shutil

        shutil.copy(keep, "/tmp/gwfverif-missing-verdict.json")
        raise Machinery("GwfProjectTrace gave %d verdicts for %d traces (no verdict for %s, kept in /tmp/gwfverif-missing-verdict.json):\n%s" % (len(out), n, missing, res.stdout[-1500:]))
    os.remove(path)
    os.remove(cfg)
    return out


def validate(ctx, traces, parts=16):
    """{trace id: verdict dict(failed, step, len, act)} for every trace."""
    from .common import dump_json, pmap

    by_backend = {}
    for t in traces:
        by_backend.setdefault(t["backend"], []).append(t)
    jobs = []
    for backend, ts in by_backend.items():
        k = max(1, min(parts, len(ts) // 20 + 1))
        for c in range(k):
            chunk = ts[c::k]
            if chunk:
                path = ctx.tmp("ptrace-%s-%d-%d.json" % (backend, c, random.getrandbits(32)))
                dump_json(path, chunk)
                jobs.append((backend, path, len(chunk), ctx.scratch))
    outs = pmap(_validate_one, jobs, procs=min(16, len(jobs)))
    verdicts = {}
    for o in outs:
        verdicts.update(o)
    return verdicts
