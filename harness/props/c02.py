"""C02 - submission plan: stale cone only, once each, dependencies first,
exact prerequisites.

design check : DefsMC lemmas L_PrereqCovered, L_UpClosed, L_LiveNeverPlanned, L_PlanMonotone
conformance  : DefsGen scenarios over all six backend states and every requested
               set -> real submit_workflow behind the real TrackingBackend (API)
               and real `gwf run` against simulated Slurm/SGE/LSF (CLI)
               -> DefsTrace clauses C02_*.
"""
from . import defs_check

MINE = ("C02_", "C00_")
ALLB = ["U", "S", "R", "C", "X", "K"]


def nontrivial(scn):
    """Some target has a backend record and some dependency edge exists."""
    edge = any(set(scn["in"][t]) & set(scn["out"][d]) for t in scn["T"] for d in scn["T"] if t != d)
    return edge and any(v != "U" for v in scn["b"].values())


def run(ctx):
    n = ctx.q(25000, 400000)
    plans = [
        dict(NT=3, NF=3, MaxT=1, BSet=ALLB, HashOn=False, SelAll=True, Sample=n),
        dict(NT=3, NF=4, MaxT=2, BSet=ALLB, HashOn=False, SelAll=True, Sample=n),
        dict(NT=4, NF=4, MaxT=1, BSet=ALLB, HashOn=False, SelAll=True, MaxIO=2, Sample=n),
        dict(NT=4, NF=5, MaxT=1, BSet=ALLB, HashOn=True, SelAll=True, MaxIO=3, Sample=n),
    ]
    defs_check.run(
        ctx,
        mine=MINE,
        design_consts=ctx.q(
            dict(NT=2, NF=3, MaxT=1, BSet='{"U","S","X","K"}', HashOn="FALSE", MaxIO=2),
            dict(NT=2, NF=3, MaxT=2, BSet='{"U","S","R","C","X","K"}', HashOn="FALSE", MaxIO=2),
        ),
        plans=plans,
        api_reps=ctx.q(1, 2),
        cli_n=ctx.q(240, 6000),
        cli_backends=("slurm", "sge", "lsf"),
        nontrivial=nontrivial,
        rule="scenarios = well-formed workflows of 3-4 targets over 3-5 files with every backend state "
        "unknown/submitted/running/completed/failed/cancelled per target and every requested target set, seeded RandomSubset "
        "of DefsGen's universe; each replayed through the real submit_workflow behind the real TrackingBackend (API) and a "
        "sample through `gwf run` against simulated Slurm, SGE and LSF; non-trivial = at least one dependency edge and one "
        "target with a job record; distinct by content",
    )


def replay(ctx, path):
    return defs_check.replay(ctx, path, MINE)
