"""C03 - the dependency graph is exactly the relation induced by shared file paths.

design check : ValidMC (Deps/Dependents/Endpoints lemmas: inverse relation, endpoints exist)
conformance  : DefinitionGen (2-3 declarations, per-target working directories P and P/s, inputs and
               outputs drawn from 13 spellings of 4 files incl. look-alikes) -> real Target /
               Graph.from_targets under shuffled definition order and container shapes, and
               `gwf info` on a real project for a sample -> DefinitionTrace clauses C03_* (Norm and
               the induced relation are computed by TLC from the spellings).
"""
import json

from .. import definition, defs
from ..common import pmap
from . import c04

MINE = ("C03_",)


def run(ctx):
    ctx.phase("design check")
    c04.design(ctx)
    ctx.phase("generate")
    scns = definition.gen(ctx, "graph", ND=2, Sample=ctx.q(6000, 60000), MaxIO=2)
    scns += definition.gen(ctx, "graph", ND=3, Sample=ctx.q(6000, 120000), MaxIO=2)
    ctx.phase("drive %d scenarios" % len(scns))
    recs = pmap(definition.drive, [(k, s, ctx.seed * 7919 + k) for k, s in enumerate(scns)], chunk=16)
    ctx.phase("validate")
    failed = defs.validate(ctx, recs, module="DefinitionTrace", cfg="DefinitionTrace.cfg")
    byid = {r["id"]: r for r in recs}
    for rid, cl in failed.items():
        m = [c for c in cl if c.startswith(MINE)]
        if m:
            ctx.violation(m, byid[rid]["scn"], byid[rid]["obs"])
    cov = ctx.cov
    cov["evaluations"] = len(recs)
    cov["traces_validated_against_impl"] = len(recs)
    cov["built_graphs"] = sum(1 for r in recs if r["obs"]["built"])
    cov["info_level_traces"] = sum(1 for r in recs if r["obs"]["has_info"])
    cov["distinct_nontrivial"] = len({json.dumps(r["scn"]["decls"], sort_keys=True) for r in recs if r["obs"]["built"] and any(r["obs"]["deps"].values())})
    cov["rule"] = ("scenarios = 2-3 declarations with working directory /P or /P/s and <=2 inputs/outputs each drawn from 13 "
                   "spellings (relative, ./x, s/../x, ../x, absolute, absolute with . and ..) of P/x, P/s/x, P/xx, P/y, seeded "
                   "RandomSubset by TLC; non-trivial = graph built and at least one dependency edge; distinct by content")
    cov["samples"] = [recs[0], recs[-1]]
    ctx.assumptions += ["paths are abstract (/P/...): string normalisation only, no symbolic links"]


def replay(ctx, path):
    v = json.load(open(path))
    rec = definition.drive((0, v["scenario"], v["scenario"]["variant"]))
    failed = defs.validate(ctx, [rec], module="DefinitionTrace", cfg="DefinitionTrace.cfg")
    m = [c for c in failed.get(0, []) if c.startswith(MINE)]
    print(json.dumps(rec["obs"]))
    if m:
        print("VIOLATION property=C03 replay=%s clauses=%s" % (path, ",".join(m)))
        return 1
    print("replay passes")
    return 0
