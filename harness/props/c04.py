"""C04 - validation accepts exactly well-formed workflows and names the defect.

design check : ValidMC (Errors agrees with independent characterisations; monotone)
conformance  : ValidGen scenarios (arbitrary in/out assignments, families)
               -> real Graph.from_targets (exception kind), real CLI commands on
               ill-formed projects (exit code, Error line, no side effects),
               scaled family members (termination) -> ValidTrace clauses C04_*.
"""
import json
import os
import random
import shutil
import tempfile

from .. import defs, tlc
from ..common import Machinery, pmap
from . import cli_defs

MINE = ("C04_",)
BIG = None  # set by run(): sizes of scaled family members


def gen(ctx, **consts):
    cfg = ctx.tmp("ValidGen-%d.cfg" % random.getrandbits(32))
    defs.write_cfg(cfg, consts)
    res = tlc.run_tlc("ValidGen", cfg, seed=ctx.seed, timeout=900, scratch=ctx.scratch)
    if not res.values:
        raise Machinery("ValidGen produced nothing")
    return res.values


def design(ctx):
    cfg = ctx.tmp("ValidMC.cfg")
    consts = ctx.q(dict(NT=3, NF=2, MaxIO=2), dict(NT=3, NF=3, MaxIO=2))
    with open(cfg, "w") as f:
        f.write(open(tlc.SPEC_DIR + "/ValidMC_head.cfg").read() + "CONSTANTS\n" + "".join(" %s = %s\n" % kv for kv in consts.items()))
    res = tlc.run_tlc("ValidMC", cfg, workers=16, timeout=3000, xmx="8g", scratch=ctx.scratch)
    if res.violated:
        raise Machinery("ValidMC violated %s\n%s" % (res.violated, res.errtext))
    ctx.add_design("ValidMC", res, json.dumps(consts))


def kind_of(exc):
    from gwf.core import CircularDependencyError, FileProvidedByMultipleTargetsError, UnresolvedInputError

    if isinstance(exc, FileProvidedByMultipleTargetsError):
        return "multi"
    if isinstance(exc, UnresolvedInputError):
        return "unresolved"
    if isinstance(exc, CircularDependencyError):
        return "cycle"
    return "other:" + type(exc).__name__


# how a target names the project directory P and a file f in it (the process runs in P)
SPELLINGS = [
    lambda P, f: (P, f),                                  # absolute working directory
    lambda P, f: (".", f),                                # the default working directory of a Target
    lambda P, f: ("s", "../" + f),                        # relative sub-directory (templates, Workflow(working_dir="s"))
    lambda P, f: (P + "/s", "./../" + f),                 # absolute sub-directory
    lambda P, f: ("s/..", P + "/" + f),                   # absolute path from a relative directory
]


def build(scn, variant):
    from gwf.core import Graph, Target
    from .. import definition

    rng = random.Random(variant)
    perm = defs.NAME_PERMS[variant % len(defs.NAME_PERMS)]
    perm = dict(perm, E="echo", G="golf")
    order = list(scn["T"])
    rng.shuffle(order)
    P = os.path.join(definition.real_root(), "P")
    # a third of the scenarios spell everything alike (absolute), the others mix spellings per target
    mixed = variant % 3 != 0
    targets = []
    for t in order:
        sp = rng.choice(SPELLINGS) if mixed else SPELLINGS[0]
        targets.append(Target(
            name=perm[t],
            inputs=defs.shape([sp(P, f)[1] for f in sorted(scn["in"][t])], rng.choice(defs.SHAPES)),
            outputs=defs.shape([sp(P, f)[1] for f in sorted(scn["out"][t])], rng.choice(defs.SHAPES)),
            options={},
            working_dir=sp(P, "")[0],
        ))
    fs = defs.DictFS({P + "/" + f: (None if m < 0 else 1000.0) for f, m in scn["fs"].items()})
    old = os.getcwd()
    os.chdir(P)
    try:
        return Graph.from_targets({t.name: t for t in targets}, fs)
    finally:
        os.chdir(old)


class NoBackend:
    def status(self, target):
        from gwf.backends.base import BackendStatus

        return BackendStatus.UNKNOWN


def big_instance(scn, n, order_kind, seed):
    """The member of scn's family with n targets; same relative position of the back edge."""
    from gwf.core import Target

    small_n = scn["n"]
    i = j = 0
    if scn["family"] == "backedge":
        # keep first/last/middle positions: scale indices proportionally, keeping i <= j
        i = max(1, round(scn["i"] * n / small_n)) if scn["i"] > 1 else 1
        j = max(i, round(scn["j"] * n / small_n)) if scn["j"] < small_n else n
        if scn["i"] == scn["j"]:
            j = i
    names = ["t%05d" % k for k in range(1, n + 1)]
    targets = []
    for k in range(1, n + 1):
        ins = ["f%05d" % (k - 1)] if k > 1 else []
        if i and k == i:
            ins.append("f%05d" % j)
        targets.append(dict(name=names[k - 1], inputs=ins, outputs=["f%05d" % k]))
    if order_kind == "reverse":
        targets.reverse()
    elif order_kind == "shuffled":
        random.Random(seed).shuffle(targets)
    return targets


def run_big(scn, n, order_kind, seed):
    """from_targets / status / dry-run / touch on a scaled family member."""
    from gwf.core import CachedFilesystem, Graph, NoopSpecHashes, Target
    from gwf.plugins.touch import touch_workflow
    from gwf.scheduling import get_status_map, submit_workflow

    out = []
    d = tempfile.mkdtemp(prefix="gwfverif-big-")
    try:
        decls = big_instance(scn, n, order_kind, seed)
        targets = {t["name"]: Target(name=t["name"], inputs=t["inputs"], outputs=t["outputs"], options={}, working_dir=d) for t in decls}
        fs = CachedFilesystem()
        from ..common import time_limit

        try:
            with time_limit(120):
                graph = Graph.from_targets(targets, fs)
            out.append({"op": "from_targets", "order": order_kind, "outcome": "ok"})
        except BaseException as exc:  # noqa: BLE001
            out.append({"op": "from_targets", "order": order_kind, "outcome": kind_of(exc)})
            return out
        for op in ("status", "dryrun", "touch", "status_after_touch"):
            try:
              with time_limit(20):
                if op in ("status", "status_after_touch"):
                    sm = get_status_map(graph, CachedFilesystem(), NoopSpecHashes(), NoBackend())
                    ok = len(sm) == n
                    if op == "status_after_touch":
                        ok = ok and all(s.name == "COMPLETED" for s in sm.values())
                    out.append({"op": op, "order": order_kind, "outcome": "ok" if ok else "wrong-result"})
                elif op == "dryrun":
                    submit_workflow(graph.endpoints(), graph, CachedFilesystem(), NoopSpecHashes(), NoBackend(), dry_run=True)
                    out.append({"op": op, "order": order_kind, "outcome": "ok"})
                else:
                    touch_workflow(graph.endpoints(), graph, NoopSpecHashes())
                    out.append({"op": op, "order": order_kind, "outcome": "ok"})
            except BaseException as exc:  # noqa: BLE001
                out.append({"op": op, "order": order_kind, "outcome": "other:" + type(exc).__name__})
                if type(exc).__name__ in ("GwfTimeout", "MemoryError"):
                    break  # the graph makes gwf loop: the other operations would only repeat that
    finally:
        shutil.rmtree(d, ignore_errors=True)
    return out


CLI_CMDS = [["status"], ["run"], ["run", "--dry-run"], ["clean", "--all", "-f"], ["touch"], ["cancel", "-f"], ["info"]]


def drive(item):
    rid, scn, variant, with_cli, big = item
    from ..common import time_limit

    obs = {"built": False, "kind": "", "cli": [], "big": []}
    g = None
    try:
        with time_limit(20):
            g = build(scn, variant)
        obs["built"] = True
    except BaseException as exc:  # noqa: BLE001
        obs["kind"] = kind_of(exc)
    if g is not None:
        # the commands built on an accepted graph must terminate (a cyclic graph that slipped through
        # makes the scheduler loop forever)
        try:
            from gwf.core import NoopSpecHashes
            from gwf.scheduling import get_status_map

            with time_limit(1):
                from .. import definition

                P = os.path.join(definition.real_root(), "P")
                get_status_map(g, defs.DictFS({P + "/" + f: (None if m < 0 else 1000.0) for f, m in scn["fs"].items()}), NoopSpecHashes(), NoBackend())
        except BaseException as exc:  # noqa: BLE001
            if type(exc).__name__ in ("GwfTimeout", "RecursionError", "MemoryError"):
                obs["big"].append({"op": "status", "order": "small", "outcome": "other:" + type(exc).__name__})
    if with_cli:
        sb = cli_defs.sandbox()
        s2 = dict(scn, hash=False, hrec={t: "same" for t in scn["T"]}, b={t: "U" for t in scn["T"]}, sel=[])
        perm = dict(defs.NAME_PERMS[variant % len(defs.NAME_PERMS)], E="echo", G="golf")
        saved = defs.NAME_PERMS[variant % len(defs.NAME_PERMS)]
        defs.NAME_PERMS[variant % len(defs.NAME_PERMS)] = perm
        try:
            cli_defs.setup_project(sb, s2, variant, "slurm", extra_conf={"use_spec_hashes": True})
        finally:
            defs.NAME_PERMS[variant % len(defs.NAME_PERMS)] = saved
        # some tracked jobs so that `cancel` would have something to do
        sb.write(".gwf/slurm-backend-tracked.json", json.dumps({perm[t]: "9%d" % k for k, t in enumerate(scn["T"])}))
        sb.write(".gwf/spec-hashes.json", json.dumps({perm[t]: "0" * 40 for t in scn["T"]}))
        sb.write(".gwf/logs/old.stdout", "x")
        for cmd in CLI_CMDS:
            before = sb.digest()
            sb.new_calls()
            r = sb.gwf(cmd, limit=15)
            calls = sb.new_calls()
            obs["cli"].append(
                {
                    "cmd": " ".join(cmd),
                    "exit": r.exit_code if r.exc is None else -1,
                    "errline": bool(r.stderr and "Error:" in r.stderr) and r.exc is None,
                    "changed": sb.digest() != before,
                    "mutating": bool(cli_defs.mutating(calls)),
                }
            )
            if obs["built"] or r.exit_code == -98:
                break  # well-formed: only that the first command works; hung: no point in repeating
    for n in big:
        for order_kind in ("forward", "reverse", "shuffled"):
            obs["big"] += run_big(scn, n, order_kind, variant)
    s3 = dict(scn, variant=variant, bign=list(big))
    return {"id": rid, "scn": s3, "obs": obs}


def run(ctx):
    ctx.phase("design check")
    design(ctx)
    ctx.phase("generate")
    scns = gen(ctx, NT=2, NF=2, MaxIO=2, Sample=0, FamN=6)
    scns += gen(ctx, NT=3, NF=3, MaxIO=2, Sample=ctx.q(5000, 200000), FamN=0)
    scns += gen(ctx, NT=4, NF=4, MaxIO=2, Sample=ctx.q(2000, 100000), FamN=0)
    if ctx.thorough:
        scns += gen(ctx, NT=5, NF=4, MaxIO=1, Sample=60000, FamN=0)   # (the universe must stay below 2^31 for RandomSubset)
    # (lengths on both sides of the interpreter's recursion limit, and one well inside it: a shortcut that is only
    # safe for small or only for large graphs shows in one of them)
    big = ctx.q([700, 1200], [400, 700, 990, 1200, 3000])
    rng = random.Random(ctx.seed)
    cli_every = max(1, len(scns) // ctx.q(120, 2500))
    items = []
    for k, s in enumerate(scns):
        fam = s["family"] != "none" and s["n"] >= 3
        items.append((k, s, ctx.seed * 7919 + k, k % cli_every == 0, big if fam else []))
    ctx.phase("drive %d scenarios" % len(items))
    rng.shuffle(items)
    recs = pmap(drive, items, chunk=8)
    ctx.phase("validate")
    failed = defs.validate(ctx, recs, module="ValidTrace", cfg="ValidTrace.cfg")
    byid = {r["id"]: r for r in recs}
    for rid, cl in failed.items():
        m = [c for c in cl if c.startswith(MINE)]
        if m:
            r = byid[rid]
            bad_big = [b for b in r["obs"]["big"] if b["outcome"] != "ok"][:4]
            scn = dict(r["scn"], failing_big=bad_big)
            ctx.violation(m, scn, r["obs"] if len(r["obs"]["big"]) < 40 else dict(r["obs"], big=bad_big))
    cov = ctx.cov
    cov["evaluations"] = len(recs)
    cov["traces_validated_against_impl"] = len(recs)
    cov["cli_level_traces"] = sum(1 for r in recs if r["obs"]["cli"])
    cov["scaled_family_runs"] = sum(len(r["obs"]["big"]) for r in recs)
    cov["distinct_nontrivial"] = len({json.dumps([s["in"], s["out"], s["fs"]], sort_keys=True) for s in scns if any(s["in"][t] for t in s["T"]) and any(s["out"][t] for t in s["T"])})
    cov["rule"] = (
        "scenarios = every assignment of <=2 inputs and <=2 outputs to 2 targets over 2 files x present/missing (exhaustive), "
        "seeded samples of 3x3, 4x4 (thorough 5x5), and the families Chain(n), ChainWithBackEdge(n,i,j) for n<=6 scaled by the "
        "driver to %s targets in forward/reverse/shuffled definition order; non-trivial = some input and some output declared; distinct by content" % big
    )
    cov["samples"] = [recs[0], recs[-1]]
    ctx.assumptions += [
        "scaled family members are judged by the verdict TLC computes for the small member of the same family (extrapolation)",
        "CLI side effects observed on a simulated Slurm; tree compared by size/mtime/sha1",
    ]


def replay(ctx, path):
    v = json.load(open(path))
    scn = v["scenario"]
    rec = drive((0, scn, scn["variant"], True, scn.get("bign", [])))
    failed = defs.validate(ctx, [rec], module="ValidTrace", cfg="ValidTrace.cfg")
    m = [c for c in failed.get(0, []) if c.startswith(MINE)]
    print(json.dumps({k: v for k, v in rec["obs"].items() if k != "big"}, indent=1), [b for b in rec["obs"]["big"] if b["outcome"] != "ok"][:6])
    if m:
        print("VIOLATION property=C04 replay=%s clauses=%s" % (path, ",".join(m)))
        return 1
    print("replay passes")
    return 0
