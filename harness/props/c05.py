"""C05 - status, dry-run and run agree, and the two previews change nothing.

design check : DefsMC lemma L_ConeOnly (status over the whole workflow and run
               over a sub-cone read the same table), L_PlanMonotone
conformance  : from one sandbox state: `gwf status`, `gwf run --dry-run`,
               `gwf run`; snapshots of the whole tree and of the scheduler
               journal in between -> DefsTrace clauses C05_*; status filters and
               formats -> StatusTrace (see c05 filter part).
"""
from . import defs_check

MINE = ("C05_", "C00_")
ALLB = ["U", "S", "R", "C", "X", "K"]


def nontrivial(scn):
    return len(set(scn["b"].values())) > 1 and any(scn["in"][t] for t in scn["T"])


def run(ctx):
    n = ctx.q(8000, 150000)
    plans = [
        dict(NT=3, NF=4, MaxT=2, BSet=ALLB, HashOn=False, SelAll=True, Sample=n),
        dict(NT=3, NF=4, MaxT=2, BSet=ALLB, HashOn=True, SelAll=True, Sample=n),
        dict(NT=4, NF=5, MaxT=1, BSet=ALLB, HashOn=True, SelAll=True, MaxIO=3, Sample=n),
    ]
    defs_check.run(
        ctx,
        mine=MINE,
        design_consts=ctx.q(
            dict(NT=2, NF=3, MaxT=1, BSet='{"U","S","X"}', HashOn="TRUE", MaxIO=1),
            dict(NT=2, NF=3, MaxT=2, BSet='{"U","S","X","K"}', HashOn="TRUE", MaxIO=2),
        ),
        plans=plans,
        api_reps=1,
        cli_n=ctx.q(480, 8000),
        cli_backends=("slurm", "lsf", "sge"),
        nontrivial=nontrivial,
        rule="scenarios = well-formed project states (3-4 targets, all six backend states, hashing on/off, every requested "
        "set) sampled by TLC from DefsGen; for each, status / dry-run / run are executed from the same state through the real "
        "CLI (sample) and the API (all) with byte-level tree snapshots and scheduler journals between the commands; "
        "non-trivial = at least two different backend states and one input; distinct by content",
    )


def replay(ctx, path):
    return defs_check.replay(ctx, path, MINE)
