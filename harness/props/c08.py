"""C08 - a target's reported state is the scheduler's state of its own latest job.

design check : GwfProject (Snap = View of jobs[trk[t]]; invariants over histories with failures,
               resubmission, purges) per back end
conformance  : (a) every documented state code x placement (queue / accounting / both, disagreeing)
               x accounting switch x file state, with another target and a foreign job in other
               states, 2100 tracked ids (three accounting batches): CodesGen -> `gwf status` in a
               fresh invocation -> CodesTrace against SchedSem;
               (b) histories run -> status -> transitions -> status, failure -> re-run (new id
               replaces the old), purge, on four back ends -> GwfProjectTrace clauses C08_*.
"""
import json
import os
import random

from .. import defs, tlc
from ..common import Machinery, pmap
from . import cli_defs, proj_check

MINE = ("C08_",)
ALLOW = ["Run", "Status", "JobFail", "Cancel", "Purge", "DeleteOutput"]


def codes_scenarios(ctx):
    res = tlc.run_tlc("CodesGen", os.path.join(tlc.SPEC_DIR, "CodesGen.cfg"), seed=ctx.seed, scratch=ctx.scratch)
    if not res.values:
        raise Machinery("CodesGen produced nothing")
    return res.values


def sacct_text(a):
    return "CANCELLED by 1234" if a == "CANCELLED_BY" else a


class _PoolStub:
    """Answers the local client's state query with a fixed table (what a worker pool would report)."""

    def __init__(self, table):
        import socket
        import threading

        self.table = table
        self.sock = socket.socket()
        self.sock.bind(("127.0.0.1", 0))
        self.sock.listen(4)
        self.sock.settimeout(0.2)
        self.port = self.sock.getsockname()[1]
        self.stop = False
        self.thread = threading.Thread(target=self.run, daemon=True)
        self.thread.start()

    def run(self):
        while not self.stop:
            try:
                c, _ = self.sock.accept()
            except OSError:
                continue
            try:
                f = c.makefile("rw")
                for line in f:
                    msg = json.loads(line)
                    if msg.get("__kind__") == "get_task_states":
                        f.write(json.dumps({"__kind__": "task_states", "tasks": self.table}) + "\n")
                        f.flush()
                    elif msg.get("__kind__") == "close":
                        break
            except Exception:  # noqa: BLE001
                pass
            c.close()

    def close(self):
        self.stop = True
        self.thread.join(2)
        self.sock.close()


def drive_code(item):
    rid, scn, variant = item
    if scn["backend"] == "local":
        return drive_code_local(item)
    sb = cli_defs.sandbox()
    sb.reset(first_id=500)
    rng = random.Random(variant)
    own, oth = rng.choice([("own", "other"), ("zz_own", "aa_other"), ("a1", "b2")])
    sb.write(
        "workflow.py",
        "from gwf import Workflow\ngwf = Workflow()\n"
        "gwf.target(%r, inputs=['src'], outputs=['o1']) << 'x'\ngwf.target(%r, inputs=['src'], outputs=['o2']) << 'y'\n" % (own, oth),
    )
    sb.set_file("src", 5)
    sb.set_file("o2", 7)
    sb.set_file("o1", 7 if scn["files"] == "complete" else 3)
    be = scn["backend"]
    conf = {"backend": be}
    if be == "slurm" and not scn["acct"]:
        conf["backend.slurm.accounting_enabled"] = False
    sb.write(".gwfconf.json", json.dumps(conf))
    own_id, oth_id = "200", "201"
    trk = {}
    n_extra = 0
    if scn["batch"]:
        pos = (scn["batch"] - 1) * 1024 + 5
        extra = [("gone_%d" % k, str(3000 + k)) for k in range(2100)]
        n_extra = len(extra)
        items = extra[:pos] + [(own, own_id)] + extra[pos:] + [(oth, oth_id)]
        trk = dict(items)
    else:
        trk = {own: own_id, oth: oth_id} if variant % 2 else {oth: oth_id, own: own_id}
    sb.write(".gwf/%s-backend-tracked.json" % be, json.dumps(trk))
    squeue, sacct, qstat, bjobs = [("999", "R"), ("2000", "PD")], [("999", "FAILED"), ("20", "RUNNING"), ("2001", "TIMEOUT")], [("999", "r")], [("999", "RUN")]
    q, a = scn["q"], scn["a"]
    if be == "slurm":
        if q != "-":
            squeue.append((own_id, q))
        if a != "-":
            sacct.append((own_id, sacct_text(a)))
        if scn["other"] == "run":
            squeue.append((oth_id, "R"))
            sacct.append((oth_id, "RUNNING"))
        else:
            sacct.append((oth_id, "FAILED"))
    elif be == "sge":
        if q != "-":
            qstat.append((own_id, q))
        if scn["other"] == "run":
            qstat.append((oth_id, "r"))
    elif be == "lsf":
        if q != "-":
            bjobs.append((own_id, q))
        bjobs.append((oth_id, "RUN" if scn["other"] == "run" else "EXIT"))
    rng.shuffle(squeue)
    rng.shuffle(sacct)
    sb.render(squeue=squeue, sacct=sacct, qstat=qstat, bjobs=bjobs)
    sb.new_calls()
    r = sb.gwf(["status"], sub=(variant % 13 == 0))
    calls = sb.new_calls()
    table, bad = cli_defs.parse_status_table(r.stdout)
    sacct_calls = [c for c in calls if c["cmd"] == "sacct"]
    asked = []
    for c in sacct_calls:
        if "--jobs" in c["argv"]:
            asked += c["argv"][c["argv"].index("--jobs") + 1].split(",")
    obs = {
        "exit": r.exit_code if r.exc is None and not bad else -1,
        "shown": table.get(own, "?"),
        "other_shown": table.get(oth, "?"),
        "sacct_called": bool(sacct_calls),
        "sacct_calls": len(sacct_calls),
        "sacct_ids_asked": len(asked) if len(asked) == len(set(asked)) else -1,
        "tracked_n": len(trk),
        "err": (r.stderr or "")[-300:] + (repr(r.exc) if r.exc else ""),
    }
    return {"id": rid, "scn": dict(scn, variant=variant), "obs": obs}


def drive_code_local(item):
    """The local back end: the pool reports one of its task states for the target's own task id."""
    rid, scn, variant = item
    sb = cli_defs.sandbox()
    sb.reset()
    own, oth = "own", "other"
    sb.write("workflow.py", "from gwf import Workflow\ngwf = Workflow()\n"
             "gwf.target('own', inputs=['src'], outputs=['o1']) << 'x'\ngwf.target('other', inputs=['src'], outputs=['o2']) << 'y'\n")
    sb.set_file("src", 5)
    sb.set_file("o2", 7)
    sb.set_file("o1", 7 if scn["files"] == "complete" else 3)
    table = {"41": "RUNNING" if scn["other"] == "run" else "FAILED", "999": "RUNNING", "7": "KILLED"}
    if scn["q"] != "-":
        table["40"] = scn["q"]
    stub = _PoolStub(table)
    try:
        sb.write(".gwfconf.json", json.dumps({"backend": "local", "backend.local.port": stub.port, "backend.local.host": "127.0.0.1"}))
        sb.write(".gwf/local-backend-tracked.json", json.dumps({own: 40, oth: 41} if variant % 2 else {oth: 41, own: 40}))
        r = sb.gwf(["status"], sub=(variant % 13 == 0))
    finally:
        stub.close()
    tbl, bad = cli_defs.parse_status_table(r.stdout)
    obs = {"exit": r.exit_code if r.exc is None and not bad else -1, "shown": tbl.get(own, "?"), "other_shown": tbl.get(oth, "?"),
           "sacct_called": False, "sacct_calls": 0, "sacct_ids_asked": 0, "tracked_n": 2, "err": (r.stderr or "")[-300:] + (repr(r.exc) if r.exc else "")}
    return {"id": rid, "scn": dict(scn, variant=variant), "obs": obs}


def codes_part(ctx):
    scns = codes_scenarios(ctx)
    items = [(k, s, ctx.seed * 31 + k) for k, s in enumerate(scns)]
    recs = pmap(drive_code, items, chunk=4)
    failed = defs.validate(ctx, recs, module="CodesTrace", cfg="CodesTrace.cfg", parts=4)
    byid = {r["id"]: r for r in recs}
    for rid, cl in failed.items():
        m = [c for c in cl if c.startswith(MINE)]
        if m:
            ctx.violation(m, dict(byid[rid]["scn"], kind="codes"), byid[rid]["obs"])
    return recs


def run(ctx):
    ctx.phase("state-code table")
    recs = codes_part(ctx)
    designs = [("pair-%s" % b, dict(backend=b, wfs=("pair",), jobs=4, env=2, faults=0, cmds=3, allow=ALLOW, interleave=True)) for b in ctx.q(["slurm_noacct", "lsf"], proj_check.BACKENDS)]
    n = ctx.q(60, 2000)
    gens = [(dict(backend=b, wfs=proj_check.WFS, jobs=12, env=3, faults=0, cmds=8, anyfs=True, allow=ALLOW), 26, n) for b in proj_check.BACKENDS]
    # the real local worker pool, with restarts of the pool (tracked ids of an earlier pool)
    gens += [(dict(backend="local", wfs=proj_check.WFS, jobs=12, env=3, faults=0, cmds=8, anyfs=True,
                   allow=["Run", "Status", "JobFail", "Cancel", "DeleteOutput", "PoolRestart"]), 26, n)]
    # a renamed target has never been submitted under its new name: no job state is its own
    gens += [(dict(backend=b, wfs=proj_check.WFS, jobs=12, env=3, faults=0, cmds=8, anyfs=True, allow=ALLOW + ["Rename"]), 26, n // 2) for b in ("slurm", "lsf")]
    # a failing queue query is a failed command, whatever the accounting setting (never a reason to ask sacct)
    gens += [(dict(backend=b, wfs=proj_check.WFS, jobs=12, env=2, faults=2, cmds=8, anyfs=True, allow=ALLOW + ["QueryFail"]), 26, n // 2) for b in ("slurm_noacct", "slurm")]
    # restarts in the middle of plain run/status histories: targets finished under the old pool keep their old
    # ids while the new pool hands out ids to other targets
    gens += [(dict(backend="local", wfs=proj_check.WFS, jobs=12, env=2, faults=0, cmds=8, anyfs=False,
                   allow=["Run", "Status", "PoolRestart"]), 30, n)]
    designs.append(("pair-local", dict(backend="local", wfs=("pair",), jobs=4, env=2, faults=0, cmds=3, allow=ALLOW + ["PoolRestart"], interleave=True)))
    proj_check.run(
        ctx, mine=MINE, designs=designs, gens=gens, relevant={"JobEnd", "Purge", "Cancel"},
        must_hit=("C08_state", "C08_id_roundtrip", "C08_no_sacct_when_disabled", "C08_gone_job_falls_back"),
        rule="(a) every documented Slurm squeue/sacct, SGE and LSF state code x placement x accounting on/off x file state x "
        "state of another target's job, unrelated jobs in the queue, and 2100 tracked ids with the target's id in the 1st/2nd/3rd "
        "accounting batch (CodesGen, exhaustive); (b) TLC-simulated histories run/status/job transitions/failure and re-run/"
        "cancel/purge on four back ends; non-trivial = history with a finished, cancelled or purged job; distinct by event sequence",
    )
    cov = ctx.cov
    cov["state_code_scenarios"] = len(recs)
    cov["evaluations"] += len(recs)
    cov["traces_validated_against_impl"] += len(recs)
    cov["distinct_nontrivial"] += len({json.dumps([r["scn"][k] for k in ("backend", "q", "a", "acct", "files", "other", "batch")]) for r in recs})
    cov["samples"].append(recs[0])


def replay(ctx, path):
    v = json.load(open(path))
    if v["scenario"].get("kind") == "codes":
        rec = drive_code((0, v["scenario"], v["scenario"]["variant"]))
        failed = defs.validate(ctx, [rec], module="CodesTrace", cfg="CodesTrace.cfg")
        m = [c for c in failed.get(0, []) if c.startswith(MINE)]
        print(json.dumps(rec["obs"]))
        if m:
            print("VIOLATION property=C08 replay=%s clauses=%s" % (path, ",".join(m)))
            return 1
        print("replay passes")
        return 0
    return proj_check.replay(ctx, path, MINE)
