"""C10 - job scripts run the spec faithfully with the resolved resource options.

design check : the Options operators are evaluated by TLC on every enumerated scenario; OptionsMC
               proves Resolve/Emitted lemmas (precedence is 'last given layer wins'; None and
               unknown never emit)
conformance  : OptionsGen -> (a) every combination of the four option layers x known-with-default /
               known-with-None / unknown x target / template / map x Slurm / SGE / LSF, directives
               read by strict readers; (b) SGE per-core memory; (c) spec texts (command sequences
               with quotes, '$', failing commands, with/without trailing newline, blank lines) x
               working-directory name classes x log modes: the script gwf handed to sbatch/qsub/bsub
               is executed by bash from a foreign directory with the redirections its directives ask
               for, then `gwf logs`; (d) log cleaning -> OptionsTrace clauses C10_*.
"""
import json
import os

from .. import defs, options, tlc
from ..common import Machinery, pmap

MINE = ("C10_",)


def run(ctx):
    ctx.phase("design check")
    res = tlc.run_tlc("OptionsMC", os.path.join(tlc.SPEC_DIR, "OptionsMC.cfg"), workers=4, scratch=ctx.scratch)
    if res.violated:
        raise Machinery("OptionsMC violated %s\n%s" % (res.violated, res.errtext))
    ctx.add_design("OptionsMC", res, "all layer combinations")
    ctx.phase("generate")
    scns = options.gen(ctx, Sample=ctx.q(700, 20000))
    ctx.phase("drive %d scenarios" % len(scns))
    items = [(k, s, ctx.seed * 7919 + k) for k, s in enumerate(scns)]
    # log-cleaning scenarios run under both name tables (plain and dotted target names)
    items += [(len(scns) + k, s, v + 1) for k, (_, s, v) in enumerate([it for it in items if it[1]["kind"] == "logclean"])]
    recs = pmap(options.drive, items, chunk=4)
    ctx.phase("validate")
    failed = defs.validate(ctx, recs, module="OptionsTrace", cfg="OptionsTrace.cfg", parts=8)
    byid = {r["id"]: r for r in recs}
    for rid, cl in failed.items():
        m = [c for c in cl if c.startswith(MINE)]
        if m:
            ctx.violation(m, byid[rid]["scn"], byid[rid]["obs"])
    kinds = {}
    for r in recs:
        kinds[r["scn"]["kind"]] = kinds.get(r["scn"]["kind"], 0) + 1
    if set(kinds) != {"option", "sgemem", "script", "logclean", "twoopts"}:
        raise Machinery("scenario kinds missing: %s" % kinds)
    cov = ctx.cov
    cov["evaluations"] = len(recs)
    cov["traces_validated_against_impl"] = len(recs)
    cov["scenarios_by_kind"] = kinds
    cov["scripts_executed_by_bash"] = sum(1 for r in recs if r["scn"]["kind"] == "script" and r["obs"]["ran"])
    cov["distinct_nontrivial"] = len({json.dumps({k: v for k, v in r["scn"].items() if k != "variant"}, sort_keys=True) for r in recs
                                      if r["scn"]["kind"] != "option" or {r["scn"]["wfdef"], r["scn"]["tmpl"], r["scn"]["arg"]} != {"absent"}})
    cov["rule"] = ("all 4x4x4 layer combinations x 3 option kinds x 3 creation modes x 3 back ends (exhaustive), 18 SGE memory cases, "
                   "a seeded RandomSubset of (command sequences of length <=3 over 7 commands) x 11 directory-name classes x back end "
                   "x log mode x newline style, and all 128 log-cleaning cases; non-trivial = an option given in some layer, or any "
                   "script/log scenario; distinct by content")
    cov["samples"] = [next(r for r in recs if r["scn"]["kind"] == k) for k in ("option", "script")]
    ctx.assumptions += ["spec texts and directory names are represented by command/character classes with one representative each",
                        "the scheduler's handling of directives (log redirection) is simulated by the driver from their documented meaning"]


def replay(ctx, path):
    v = json.load(open(path))
    rec = options.drive((0, v["scenario"], v["scenario"]["variant"]))
    failed = defs.validate(ctx, [rec], module="OptionsTrace", cfg="OptionsTrace.cfg")
    m = [c for c in failed.get(0, []) if c.startswith(MINE)]
    print(json.dumps(rec["obs"]))
    if m:
        print("VIOLATION property=C10 replay=%s clauses=%s" % (path, ",".join(m)))
        return 1
    print("replay passes")
    return 0
