"""C19 - workflow definition: paths and names mean the same wherever gwf is run.

design check : ValidMC + the Definition operators evaluated by TLC on every generated scenario
conformance  : DefinitionGen "misc" scenarios -> (a) real projects on disk whose files sit where
               EffWd resolves them, `gwf status`/`gwf info` from the project root, a nested
               directory and an unrelated directory with -f (target / template with and without its
               own directory / map; inherited and explicit workflow directory); (b) every name
               class sequence of length <= 3; (c) every path value kind in inputs/outputs/nested;
               (d) map with every naming mode x item shape x 0..3 items -> DefinitionTrace C19_*.
"""
import json

from .. import definition, defs
from ..common import Machinery, pmap
from . import c04

MINE = ("C19_",)


def run(ctx):
    ctx.phase("design check")
    c04.design(ctx)
    ctx.phase("generate")
    scns = definition.gen(ctx, "misc")
    reps = ctx.q(2, 12)
    items = []
    for k, s in enumerate(scns):
        for r in range(reps if s["kind"] in ("name", "path") else ctx.q(1, 3)):
            items.append((len(items), s, ctx.seed * 7919 + k * 16 + r))
    ctx.phase("drive %d scenarios" % len(items))
    recs = pmap(definition.drive, items, chunk=8)
    ctx.phase("validate")
    failed = defs.validate(ctx, recs, module="DefinitionTrace", cfg="DefinitionTrace.cfg", parts=8)
    byid = {r["id"]: r for r in recs}
    for rid, cl in failed.items():
        m = [c for c in cl if c.startswith(MINE)]
        if m:
            ctx.violation(m, byid[rid]["scn"], byid[rid]["obs"])
    kinds = {}
    for r in recs:
        kinds[r["scn"]["kind"]] = kinds.get(r["scn"]["kind"], 0) + 1
    if set(kinds) != {"wd", "name", "path", "map", "defseq"}:
        raise Machinery("scenario kinds missing: %s" % kinds)
    cov = ctx.cov
    cov["evaluations"] = len(recs)
    cov["traces_validated_against_impl"] = len(recs)
    cov["scenarios_by_kind"] = kinds
    cov["distinct_nontrivial"] = len({json.dumps({k: v for k, v in r["scn"].items() if k != "variant"}, sort_keys=True) for r in recs})
    cov["exhaustive"] = True
    cov["rule"] = ("scenarios enumerated by TLC: 2 workflow-directory modes x all pairs of 5 target kinds (target, template with/"
                   "without own directory, map with/without) each observed from 3 invoking directories; all 820 name class "
                   "sequences of length <=3 over 9 character classes (seeded representatives per class); 8 path value kinds x 3 "
                   "positions; 4 map naming modes x 4 item shapes x 0..3 items; all sequences of <=2 (3000 sampled of length 3) definition "
                   "operations target/template/map(naming function, 0..3 items) over a pool of 3 names, judged by the registry model "
                   "(accepted iff names pairwise distinct and unregistered); every scenario is distinct")
    cov["samples"] = [next(r for r in recs if r["scn"]["kind"] == k) for k in ("wd", "name", "map", "defseq")]
    ctx.assumptions += ["names and paths are decided per character/value class with a few concrete representatives each (DESIGN section 8)"]


def replay(ctx, path):
    v = json.load(open(path))
    rec = definition.drive((0, v["scenario"], v["scenario"]["variant"]))
    failed = defs.validate(ctx, [rec], module="DefinitionTrace", cfg="DefinitionTrace.cfg")
    m = [c for c in failed.get(0, []) if c.startswith(MINE)]
    print(json.dumps(rec["obs"], default=str))
    if m:
        print("VIOLATION property=C19 replay=%s clauses=%s" % (path, ",".join(m)))
        return 1
    print("replay passes")
    return 0
