"""C20 - configuration round-trips, is project-local, and reaches the selected back end.

design check : ConfigMC (Set/Unset on every reachable file content: only the named key changes,
               unset harmless and idempotent)
conformance  : ConfigGen -> (a) `gwf config set/unset/get` histories (each operation a separate
               invocation, from the project root or a nested directory; 19 raw value classes, keys
               sharing prefixes, a key with a default) with the typed content of .gwfconf.json after
               every step; (b) flag / configuration / default combinations for back end, verbosity and
               colour (on a pseudo-terminal); (c) which backend.* settings reach Slurm / SGE / the
               local client (log mode directives, sacct called or not, host/port dialled)
               -> ConfigTrace clauses C20_*.
"""
import json
import os

from .. import config, tlc
from ..common import Machinery, pmap

MINE = ("C20_",)


def run(ctx):
    ctx.phase("design check")
    res = tlc.run_tlc("ConfigMC", os.path.join(tlc.SPEC_DIR, "ConfigMC.cfg"), workers=8, scratch=ctx.scratch)
    if res.violated:
        raise Machinery("ConfigMC violated %s\n%s" % (res.violated, res.errtext))
    ctx.add_design("ConfigMC", res, "4 keys x 6 raw values")
    ctx.phase("generate")
    scns = config.gen(ctx, MaxOps=3, Sample=ctx.q(500, 12000))
    local = [s for s in scns if s["kind"] == "local"]
    rest = [s for s in scns if s["kind"] != "local"]
    ctx.phase("drive %d scenarios" % len(scns))
    recs = pmap(config.drive, [(k, s, ctx.seed * 7919 + k) for k, s in enumerate(rest)], chunk=4)
    recs += config.drive_local(local, first_id=len(recs))
    ctx.phase("validate")
    verdicts = config.validate(ctx, recs)
    byid = {r["id"]: r for r in recs}
    for rid, v in verdicts.items():
        m = [c for c in v["failed"] if c.startswith(MINE)]
        if m:
            r = byid[rid]
            ctx.violation(m, r["scn"], {"step": v["step"], "steps": r["steps"][: v["step"]], "obs": r["obs"]})
    kinds = {}
    for r in recs:
        kinds[r["scn"]["kind"]] = kinds.get(r["scn"]["kind"], 0) + 1
    cov = ctx.cov
    cov["evaluations"] = len(recs)
    cov["traces_validated_against_impl"] = len(recs)
    cov["scenarios_by_kind"] = kinds
    cov["config_invocations"] = sum(len(r["steps"]) for r in recs)
    cov["distinct_nontrivial"] = len({json.dumps({k: v for k, v in r["scn"].items() if k != "variant"}, sort_keys=True) for r in recs if r["scn"]["kind"] != "ops" or len(r["steps"]) > 1})
    cov["rule"] = ("op sequences of length <=3 over set/unset/get x 6 keys (a, a.b, a.bc, verbose, backend.slurm.log_mode, "
                   "backend.slurmx.y) x 19 raw value classes (all length-1 sequences + seeded RandomSubset of length-3 ones), "
                   "every flag/config combination for back end (8), verbosity (9), colour x NO_COLOR (18), namespace delivery "
                   "(4 log modes x 3 accounting x foreign keys x 2 selected back ends) and local host/port (4); "
                   "non-trivial = more than one operation or a settings-in-effect scenario; distinct by content")
    cov["samples"] = [recs[0], next(r for r in recs if r["scn"]["kind"] == "namespace")]
    ctx.assumptions += ["key and value strings are represented by 6 keys and 19 raw value classes", "colour is observed on a pseudo-terminal"]


def replay(ctx, path):
    v = json.load(open(path))
    scn = v["scenario"]
    if scn["kind"] == "local":
        recs = config.drive_local([scn], 0)
    else:
        recs = [config.drive((0, scn, scn["variant"]))]
    verdict = config.validate(ctx, recs)[0]
    m = [c for c in verdict["failed"] if c.startswith(MINE)]
    print(json.dumps(recs[0], default=str)[:3000])
    if m:
        print("VIOLATION property=C20 replay=%s clauses=%s" % (path, ",".join(m)))
        return 1
    print("replay passes")
    return 0
