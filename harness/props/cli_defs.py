"""CLI-level driver for GwfDefs scenarios: real files, real state files, the
real `gwf status`, `gwf run --dry-run` and `gwf run` against a simulated
Slurm / SGE / LSF.  One record per scenario with the observations DefsTrace
judges (C01, C02, C05, C07 flag syntax)."""
import json
import os
import random
import re

from .. import defs
from ..common import pmap
from ..sandbox import Sandbox, parse_status_table, parse_submission, parse_summary  # noqa: F401

STATUS_NAMES = ["shouldrun", "submitted", "running", "completed", "failed", "cancelled"]


def status_filters(sb, scn, perm, inv, rng, sub, k=3):
    """`gwf status` under k seeded combinations of -s, --endpoints, names and -f."""
    out = []
    T = sorted(scn["T"])
    for _ in range(k):
        sts = rng.sample(STATUS_NAMES, rng.choice([0, 0, 1, 1, 2, 3]))
        ep = rng.random() < 0.35
        names = rng.sample(T, rng.choice([0, 0, 1, 2, len(T)]))
        fmt = rng.choice(["default", "default", "summary"])
        args = ["status"]
        for st in sts:
            args += ["-s", st]
        if ep:
            args.append("--endpoints")
        if fmt == "summary":
            args += ["-f", "summary"]
        if names and len(names) == len(T) and rng.random() < 0.5:
            args.append("*")
        else:
            args += [perm[t] for t in names]
        r = sb.gwf(args, sub=sub)
        f = {"sts": sts, "ep": ep, "names": names, "fmt": fmt, "ok": r.exit_code == 0 and r.exc is None, "rows": {}, "counts": {}, "args": args[1:]}
        if f["ok"]:
            if fmt == "default":
                table, bad = parse_status_table(r.stdout)
                f["rows"] = {inv.get(n, n): v for n, v in table.items()}
            else:
                f["counts"], bad = parse_summary(r.stdout)
                f["counts"] = {st: f["counts"].get(st, -1) for st in STATUS_NAMES}
            if bad:
                f["ok"] = False
                f["why"] = "unparsed lines %r" % bad[:2]
        else:
            f["why"] = "exit %s: %s %r" % (r.exit_code, (r.stderr or "")[-200:], r.exc)
        out.append(f)
    return out


_SB = None


def sandbox():
    global _SB
    if _SB is None or _SB[0] != os.getpid():
        sb = Sandbox()
        import atexit

        atexit.register(sb.destroy)
        _SB = (os.getpid(), sb)
    return _SB[1]


SLURM = {"S": ("PD", "PENDING"), "R": ("R", "RUNNING"), "C": (None, "COMPLETED"), "X": (None, "FAILED"), "K": (None, "CANCELLED by 0")}
SGE = {"S": "qw", "R": "r"}
LSF = {"S": "PEND", "R": "RUN", "C": "DONE", "X": "EXIT", "K": "EXIT"}


def workflow_text(scn, perm, order, shapes, variant=0):
    lines = ["from gwf import Workflow", "gwf = Workflow()"]
    for t in order:
        si, so = shapes[t]
        lines.append(
            "gwf.target(%r, inputs=%s, outputs=%s) << %r"
            % (perm[t], defs.shape_src([defs.fname(f, variant) for f in sorted(scn["in"][t])], si),
               defs.shape_src([defs.fname(f, variant) for f in sorted(scn["out"][t])], so), defs.SPEC_TEXT % t)
        )
    return "\n".join(lines) + "\n"


def setup_project(sb, scn, variant, backend, extra_conf=None, cancel_history=False):
    """Concretise the abstract project state in the sandbox.  Returns (perm, inv, trk)."""
    from gwf.core import hash_spec

    rng = random.Random(variant)
    perm = defs.NAME_PERMS[variant % len(defs.NAME_PERMS)]
    inv = {v: k for k, v in perm.items()}
    T = list(scn["T"])
    order = T[:]
    rng.shuffle(order)
    shapes = scn.get("shapes") or {t: [rng.choice(defs.SHAPES), rng.choice(defs.SHAPES)] for t in T}
    sb.reset(first_id=500)
    from ..sandbox import BASE_TIME

    sb.base = 0 if variant % 5 == 2 else BASE_TIME      # logical mtime 0 = the epoch itself for a share of the projects
    sb.write("workflow.py", workflow_text(scn, perm, order, shapes, variant))
    for f, m in scn["fs"].items():
        sb.set_file(defs.fname(f, variant), m)
    conf = {"backend": backend}
    if scn["hash"]:
        conf["use_spec_hashes"] = True
    conf.update(extra_conf or {})
    sb.write(".gwfconf.json", json.dumps(conf))
    os.makedirs(sb.path(".gwf/logs"), exist_ok=True)
    if variant % 5 == 2:
        os.symlink("run-that-was-cleaned-up", sb.path("latest"))      # a dangling link next to the workflow's files
    if variant % 3:
        # logs left by earlier runs: of present targets and of a target that has since been removed from the
        # workflow (a preview must not tidy them up; only a real run with log cleaning may)
        for n in [perm[t] for t in T if scn["b"][t] != "U"] + ["Removed_step"]:
            for ext in ("stdout", "stderr"):
                sb.write(".gwf/logs/%s.%s" % (n, ext), "earlier output of %s\n" % n)
    trk = {}

    def tables(as_running=()):
        squeue, sacct, qstat, bjobs = [("77", "PD"), ("78", "R")], [("77", "PENDING")], [("77", "qw")], [("77", "PEND")]
        for k, t in enumerate(sorted(T)):
            st = "R" if t in as_running else scn["b"][t]
            if st == "U":
                continue
            jid = str(100 + k)
            trk[perm[t]] = jid
            if backend == "slurm":
                q, a = SLURM[st]
                if q:
                    squeue.append((jid, q))
                sacct.append((jid, a))
            elif backend == "sge":
                if st in SGE:
                    qstat.append((jid, SGE[st]))
            elif backend == "lsf":
                bjobs.append((jid, LSF[st]))
        sb.render(squeue=squeue, sacct=sacct, qstat=qstat, bjobs=bjobs)

    # For a share of the projects the cancelled jobs were cancelled by the real `gwf cancel` (the jobs are running
    # when it is called; the simulated scheduler then shows them as cancelled): the state "cancelled" is then the
    # product of a history, not of a hand-written job table, and must lead to the same decisions.
    by_cancel = sorted(t for t in T if scn["b"][t] == "K") if cancel_history else []
    tables(by_cancel)
    if trk:
        sb.write(".gwf/%s-backend-tracked.json" % backend, json.dumps(trk))
    if scn["hash"]:
        rec = {}
        for t in T:
            if scn["hrec"][t] == "same":
                rec[perm[t]] = hash_spec(defs.SPEC_TEXT % t)
            elif scn["hrec"][t] == "changed":
                rec[perm[t]] = hash_spec("echo an older spec of %s\n" % t)
        sb.write(".gwf/spec-hashes.json", json.dumps(rec))
    if by_cancel:
        r = sb.gwf(["cancel"] + [perm[t] for t in by_cancel])
        if r.exit_code != 0 or r.exc is not None:
            raise RuntimeError("gwf cancel in the set-up failed: %s %r" % ((r.stderr or "")[-300:], r.exc))
        tables()
        sb.new_calls()
    return perm, inv, trk, shapes


def mutating(calls):
    return [c["cmd"] for c in calls if c["cmd"] in ("sbatch", "qsub", "bsub", "scancel", "qdel", "bkill")]


COMMANDS_COUNTERS = ("sbatch", "qsub", "bsub")


def drive_cli(item):
    rid, scn, variant, backend = item
    sb = sandbox()
    by_cancel = variant % 3 == 1
    perm, inv, trk, shapes = setup_project(sb, scn, variant, backend, cancel_history=by_cancel)
    sub = variant % 17 == 0  # a fresh interpreter for a sample
    from ..sandbox import pattern_for

    sel = [pattern_for(perm[t], (variant + k) % 5) for k, t in enumerate(scn["sel"])]
    # for a share of the "none given" scenarios: patterns that match no target (typo, unmatched glob)
    nomatch = scn.get("nomatch", (not sel) and variant % 4 == 1)
    if nomatch:
        sel = ["Nonexistent*", "zzz_no_such_target"]
    obs = {"has_status": False, "has_subs": False, "has_dry": False, "status": {}, "subs": [], "dry": [], "err": ""}
    errs = []
    prelude = variant % 6 == 4 or (bool(scn["hash"]) and variant % 2 == 0)
    if prelude:
        # an earlier `gwf run` whose first submission the scheduler rejected: nothing was accepted, so the project
        # state - tracked jobs, recorded specs - is what it was, and every decision below must come out the same
        sub_cmd = {"slurm": "sbatch", "sge": "qsub", "lsf": "bsub"}[backend]
        sb.set_fault([(sub_cmd, 1, "exit1" if variant % 12 == 4 else "stderr" if backend == "slurm" else "exit1")])
        sb.gwf(["run"], sub=sub)
        sb.clear_fault()
        for c in COMMANDS_COUNTERS:
            try:
                os.remove(os.path.join(sb.ctl, "n." + c))
            except FileNotFoundError:
                pass
        sb.new_calls()
    snap0 = sb.digest()
    sb.new_calls()
    r = sb.gwf(["status"], sub=sub)
    c1 = sb.new_calls()
    snap1 = sb.digest()
    table, bad = parse_status_table(r.stdout)
    if r.exit_code != 0 or bad:
        errs.append("status: exit %s %s %s" % (r.exit_code, bad[:2], (r.stderr or "")[-300:]))
    else:
        obs["status"] = {inv.get(n, n): s for n, s in table.items()}
        obs["has_status"] = set(obs["status"]) == set(scn["T"])
        if not obs["has_status"]:
            errs.append("status table lists %s" % sorted(obs["status"]))
    obs["filt"] = status_filters(sb, scn, perm, inv, random.Random(variant + 5), sub) if scn.get("filters", True) else []
    sb.new_calls()
    snap1 = sb.digest()
    r = sb.gwf(["run", "--dry-run"] + sel, sub=sub)
    c2 = sb.new_calls()
    snap2 = sb.digest()
    if r.exit_code != 0:
        errs.append("dry-run: exit %s %s" % (r.exit_code, (r.stderr or "")[-300:]))
    else:
        obs["dry"] = [inv.get(n, n) for n in re.findall(r"^Would submit (\S+)$", r.stderr, re.M)]
        obs["has_dry"] = True
    r = sb.gwf(["run"] + sel, sub=sub)
    c3 = sb.new_calls()
    if r.exit_code != 0:
        errs.append("run: exit %s %s" % (r.exit_code, (r.stderr or "")[-300:]))
    else:
        subs = []
        for c in c3:
            if c["cmd"] in ("sbatch", "qsub", "bsub"):
                p = parse_submission(c)
                subs.append({"t": inv.get(p["name"], str(p["name"])), "id": p["id"], "deps": p["deps"], "kind": p["kind"]})
        obs["subs"] = subs
        obs["has_subs"] = True
    after = sb.read_json(".gwf/%s-backend-tracked.json" % backend)
    obs["trk_after"] = {inv.get(n, n): str(j) for n, j in after.items()} if isinstance(after, dict) else {"?": str(after)}
    obs["snap"] = [snap0, snap1, snap2]
    obs["mut_status"] = mutating(c1)
    obs["mut_dry"] = mutating(c2)
    obs["err"] = "; ".join(errs)
    s2 = dict(scn)
    s2.update(trk={inv[n]: j for n, j in trk.items()}, shapes=shapes, variant=variant, level="cli", backend=backend, sub=sub, nomatch=bool(nomatch), prelude=prelude, cancel_history=by_cancel)
    return {"id": rid, "scn": s2, "obs": obs}


def drive_cli_sample(ctx, scns, n, first_id, backends=("slurm", "sge", "lsf")):
    rng = random.Random(ctx.seed + 17)
    if len(scns) <= n:
        pick = scns
    else:
        # half of the sample from the scenarios with spec hashing on (they are a minority of the generated ones)
        hashed = [s for s in scns if s.get("hash")]
        plain = [s for s in scns if not s.get("hash")]
        k = min(len(hashed), n // 2)
        pick = rng.sample(hashed, k) + rng.sample(plain, min(len(plain), n - k))
    items = [(first_id + k, s, ctx.seed * 7919 + k, backends[k % len(backends)]) for k, s in enumerate(pick)]
    return pmap(drive_cli, items, chunk=4)
