"""Shared body of the checks decided on GwfDefs (C01, C02, C05)."""
import json

from .. import defs, tlc
from ..common import Machinery, pmap
from . import cli_defs


def design(ctx, consts):
    cfg = ctx.tmp("DefsMC.cfg")
    head = open(tlc.SPEC_DIR + "/DefsMC_head.cfg").read()
    with open(cfg, "w") as f:
        f.write(head + "CONSTANTS\n" + "".join(" %s = %s\n" % kv for kv in consts.items()))
    res = tlc.run_tlc("DefsMC", cfg, workers=16, timeout=3000, xmx="8g", scratch=ctx.scratch)
    if res.violated:
        raise Machinery("design check DefsMC violated %s:\n%s" % (res.violated, res.errtext))
    ctx.add_design("DefsMC", res, json.dumps(consts))


def run(ctx, *, mine, design_consts, plans, api_reps, cli_n, cli_backends, nontrivial, rule):
    ctx.phase("design check")
    design(ctx, design_consts)
    ctx.phase("generate")
    scns = []
    for p in plans:
        scns += defs.gen(ctx, **p)
    ctx.phase("drive %d scenarios" % len(scns))
    items = []
    for k, s in enumerate(scns):
        for r in range(api_reps):
            items.append((len(items), s, ctx.seed * 1000003 + k * api_reps + r))
    recs = pmap(defs.drive_api, items)
    if cli_n:
        recs += cli_defs.drive_cli_sample(ctx, scns, cli_n, first_id=len(recs), backends=cli_backends)
    ctx.phase("validate %d records" % len(recs))
    failed = defs.validate(ctx, recs)
    ctx.phase("report")
    byid = {r["id"]: r for r in recs}
    for rid, cl in failed.items():
        m = [c for c in cl if c.startswith(mine)]
        if m:
            ctx.violation(m, byid[rid]["scn"], byid[rid]["obs"])
    cov = ctx.cov
    cov["evaluations"] = len(recs)
    cov["traces_validated_against_impl"] = len(recs)
    cov["cli_level_traces"] = sum(1 for r in recs if r["scn"]["level"] == "cli")
    cov["distinct_nontrivial"] = len(
        {json.dumps([s[k] for k in ("in", "out", "fs", "b", "hrec", "hash", "sel")], sort_keys=True) for s in scns if nontrivial(s)}
    )
    cov["rule"] = rule
    cov["exhaustive"] = False
    cov["samples"] = [recs[0], recs[len(recs) // 2], recs[-1]]
    ctx.assumptions += [
        "logical mtimes: only the order of modification times matters (A3)",
        "schedulers are simulated from their documentation (A1); one gwf command is atomic w.r.t. scheduler progress (A2)",
        "TLC 1.8.0 and the CommunityModules JSON reader are trusted",
    ]


def replay(ctx, path, mine):
    v = json.load(open(path))
    scn = v["scenario"]
    if scn.get("level") == "cli":
        rec = cli_defs.drive_cli((0, scn, scn["variant"], scn.get("backend", "slurm")))
    else:
        rec = defs.drive_api((0, scn, scn["variant"]))
    failed = defs.validate(ctx, [rec])
    m = [c for c in failed.get(0, []) if c.startswith(mine)]
    print(json.dumps(rec["obs"], indent=1))
    if m:
        print("VIOLATION property=%s replay=%s clauses=%s" % (ctx.pid, path, ",".join(m)))
        return 1
    print("replay passes")
    return 0
