"""Shared body of the local-pool checks C11, C12, C13 (virtual-time tier)."""
import json

from .. import pool, pooldrive
from ..common import pmap


def run(ctx, *, focus, designs, gens, relevant, rule, liveness=None):
    ctx.phase("design checks")
    for name, kw in designs:
        pool.mc(ctx, name, pool.consts(**kw))
    if liveness:
        pool.mc(ctx, "liveness", pool.consts(**liveness), liveness=True)
    ctx.phase("generate")
    from concurrent.futures import ThreadPoolExecutor

    with ThreadPoolExecutor(max_workers=8) as ex:
        futs = [ex.submit(pool.gen, ctx, pool.consts(**kw), depth, num, ctx.seed * 131 + k) for k, (kw, depth, num) in enumerate(gens)]
        scns = [s for f in futs for s in f.result()]
    scns = pool.pinned() + scns   # the repository's own test_local.py scenarios come first
    ctx.phase("drive %d scenarios on the virtual-time loop" % len(scns))
    traces = pmap(pooldrive.drive, list(enumerate(scns)))
    ctx.phase("validate (focus %s)" % focus)
    acc = pool.validate(ctx, traces, focus=focus)
    rej = [t for t in traces if t["id"] not in acc]
    if rej:
        prog = pool.validate(ctx, rej[:40], focus=focus, progress=True)
        for t in rej:
            k = prog.get(t["id"], 0)
            ctx.violation(
                [focus + "_trace_rejected"],
                {"cores": t["cores"], "generated": scns[t["id"]]["ev"], "events": t["events"], "logs": t["logs"], "kind": "pool"},
                {"longest_matched_prefix": k - 1 if k else None, "next_event": t["events"][k - 1] if k and k - 1 < len(t["events"]) else None},
            )
    npin = 0
    for t in traces:
        scn = scns[t["id"]]
        if "pinned" in scn:
            npin += 1
            why = pool.pinned_mismatch(scn, t)
            if why and t["id"] in acc:
                ctx.violation([focus + "_repo_test_expectation"],
                              {"cores": t["cores"], "generated": scn["ev"], "events": t["events"], "logs": t["logs"], "kind": "pool", "pinned": scn["pinned"]},
                              {"mismatch": why})
    ctx.cov["repo_test_scenarios_validated"] = npin
    kinds = {}
    nontriv = set()
    for t in traces:
        ks = [e["e"] for e in t["events"]]
        for k in ks:
            kinds[k] = kinds.get(k, 0) + 1
        if relevant(t):
            nontriv.add(json.dumps([[e.get(x) for x in ("e", "t", "deps", "rc", "limit", "attrs")] for e in t["events"]]) + str(t["cores"]))
    cov = ctx.cov
    cov["evaluations"] = len(traces)
    cov["traces_validated_against_impl"] = len(traces)
    cov["trace_events"] = sum(kinds.values())
    cov["events_by_kind"] = kinds
    cov["distinct_nontrivial"] = len(nontriv)
    cov["rule"] = rule
    cov["samples"] = [{"cores": t["cores"], "events": t["events"][:12]} for t in traces[:2]]
    ctx.assumptions += [
        "virtual-time event loop (CPython 3.12 asyncio internals) and fake child processes that die on kill()",
        "external events are injected only at quiescent points of the real event loop",
    ]


def realpool_part(ctx, mine):
    """Tier 2: the real Scheduler with real shell processes (script kinds x ways of ending x cores)."""
    from .. import defs, realpool

    ctx.phase("tier 2: real processes")
    scns = realpool.scenarios(ctx)
    recs = pmap(realpool.drive, list(enumerate(scns)), chunk=1)
    failed = defs.validate(ctx, recs, module="RealPool", cfg="RealPool.cfg", parts=1)
    byid = {r["id"]: r for r in recs}
    for rid, cl in failed.items():
        m = [c for c in cl if c.startswith(mine)]
        if m:
            ctx.violation(m, dict(byid[rid]["scn"], kind="realpool"), byid[rid]["obs"])
    cov = ctx.cov
    cov["real_process_scenarios"] = len(recs)
    cov["evaluations"] += len(recs)
    cov["traces_validated_against_impl"] += len(recs)
    cov["samples"].append(recs[0])
    ctx.assumptions.append("tier 2 uses real processes and the real clock; only journal order and drained final states are compared")


def e2e_part(ctx, mine, n=None):
    """End-to-end tier: the real `gwf workers` process over TCP, healthy gwf invocations and a misbehaving
    raw-socket client (scenarios and oracle: spec/WorkersE2E.tla)."""
    from .. import defs, tlc, workers_e2e
    from ..common import Machinery

    ctx.phase("end-to-end: gwf workers over TCP")
    res = tlc.run_tlc("WorkersE2E", "WorkersE2E.cfg", env={"GEN": "all" if ctx.thorough else "some"}, seed=ctx.seed, scratch=ctx.scratch)
    scns = res.values
    if not scns:
        raise Machinery("WorkersE2E produced no scenario")
    recs = pmap(workers_e2e.drive, list(enumerate(scns)), procs=8, chunk=1)
    failed = defs.validate(ctx, recs, module="WorkersE2E", cfg="WorkersE2E.cfg", parts=1)
    byid = {r["id"]: r for r in recs}
    for rid, cl in failed.items():
        m = [c for c in cl if c.startswith(mine)]
        if m:
            ctx.violation(m, dict(byid[rid]["scn"], kind="e2e"), byid[rid]["obs"])
    ctx.cov["end_to_end_scenarios"] = len(recs)
    ctx.cov["evaluations"] += len(recs)
    ctx.cov["traces_validated_against_impl"] += len(recs)
    ctx.cov["samples"].append(recs[0])


def replay_e2e(ctx, path, mine):
    from .. import defs, workers_e2e

    v = json.load(open(path))
    rec = workers_e2e.drive((0, {k: v["scenario"][k] for k in ("cores", "ntasks", "misbehave")}))
    failed = defs.validate(ctx, [rec], module="WorkersE2E", cfg="WorkersE2E.cfg", parts=1)
    m = [c for c in failed.get(0, []) if c.startswith(mine)]
    print(json.dumps(rec["obs"]))
    if m:
        print("VIOLATION property=%s replay=%s clauses=%s" % (ctx.pid, path, ",".join(m)))
        return 1
    print("replay passes")
    return 0


def replay_real(ctx, path, mine):
    from .. import defs, realpool

    v = json.load(open(path))
    rec = realpool.drive((0, {k: v["scenario"][k] for k in ("kind", "how", "cores")}))
    failed = defs.validate(ctx, [rec], module="RealPool", cfg="RealPool.cfg", parts=1)
    m = [c for c in failed.get(0, []) if c.startswith(mine)]
    print(json.dumps(rec["obs"]))
    if m:
        print("VIOLATION property=%s replay=%s clauses=%s" % (ctx.pid, path, ",".join(m)))
        return 1
    print("replay passes")
    return 0


def replay(ctx, path, focus):
    if json.load(open(path))["scenario"].get("kind") == "realpool":
        return replay_real(ctx, path, (focus + "_",))
    if json.load(open(path))["scenario"].get("kind") == "e2e":
        return replay_e2e(ctx, path, (focus + "_",))
    v = json.load(open(path))
    s = v["scenario"]
    tr = pooldrive.drive((0, {"cores": s["cores"], "ev": s["generated"]}))
    acc = pool.validate(ctx, [tr], focus=focus)
    if 0 not in acc:
        print("VIOLATION property=%s replay=%s clauses=%s_trace_rejected" % (ctx.pid, path, focus))
        return 1
    print("replay passes")
    return 0
