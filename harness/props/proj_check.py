"""Shared body of the checks decided on GwfProject histories
(C06, C07, C08, C09, C15, C16, C17, C18)."""
import json

from .. import project, projdrive
from ..common import pmap

BACKENDS = ["slurm", "slurm_noacct", "sge", "lsf"]
WFS = ("chain3", "diamond", "forksink", "twoparts", "join", "shortcut")


def run(ctx, *, mine, designs, gens, relevant, rule, extra_traces=None, must_hit=()):
    """designs: list of (name, consts kwargs); gens: list of (consts kwargs, depth, num);
    relevant: set of event acts that make a trace non-trivial for this property."""
    ctx.phase("design checks")
    for name, kw in designs:
        project.mc(ctx, name, project.consts(**kw))
    ctx.phase("generate")
    from concurrent.futures import ThreadPoolExecutor

    with ThreadPoolExecutor(max_workers=8) as ex:
        futs = [(ex.submit(project.gen, ctx, project.consts(**g[0]), g[1], g[2], ctx.seed * 101 + k), g[3] if len(g) > 3 else {}) for k, g in enumerate(gens)]
        scns = [dict(s, **flags) for f, flags in futs for s in f.result()]
    ctx.phase("drive %d behaviours" % len(scns))
    traces = pmap(projdrive.drive, [(i, s, ctx.seed * 7919 + i) for i, s in enumerate(scns)], chunk=2)
    if extra_traces:
        traces += extra_traces(ctx, len(traces))
    ctx.phase("validate")
    verdicts = project.validate(ctx, traces)
    ctx.phase("report")
    byid = {t["id"]: t for t in traces}
    other = {}
    for tid, v in verdicts.items():
        m = [c for c in v["failed"] if c.startswith(mine)]
        if m:
            t = byid[tid]
            ctx.violation(
                m,
                {"trace": {k: t[k] for k in ("backend", "wf", "variant", "sub")}, "step": v["step"], "act": v["act"],
                 "events": t["events"][: v["step"]], "hist": t.get("hist")},
                t["events"][v["step"] - 1] if 0 < v["step"] <= len(t["events"]) else None,
            )
        for c in v["failed"]:
            if not c.startswith(mine):
                other[c] = other.get(c, 0) + 1
                if other[c] == 1:
                    import os

                    from ..common import OUT as VERIF

                    os.makedirs(os.path.join(VERIF, "replays"), exist_ok=True)
                    t = byid[tid]
                    with open(os.path.join(VERIF, "replays", "other-%s-%s.json" % (ctx.pid, c)), "w") as fh:
                        json.dump({"verdict": v, "trace": {k: t[k] for k in ("backend", "wf", "variant", "sub")}, "events": t["events"][: v["step"]], "hist": t["hist"]}, fh, indent=1)
    if other:
        print("note: clauses of other properties failed in these traces (reported by their own checks): %s" % other)
    hits = {}
    for v in verdicts.values():
        for c in v.get("hits", []):
            hits[c] = hits.get(c, 0) + 1
    ctx.cov["clauses_exercised_in_n_traces"] = hits
    for key in must_hit:
        if not hits.get(key):
            from ..common import Machinery

            raise Machinery("vacuous run: clause %s was never exercised (hits=%s)" % (key, hits))
    acts = {}
    nontriv = set()
    for t in traces:
        names = [e["act"] for e in t["events"]]
        for a in names:
            acts[a] = acts.get(a, 0) + 1
        if relevant & set(names):
            nontriv.add(json.dumps([[e.get(k) for k in ("act", "sel", "t", "f", "all", "ok", "v")] for e in t["events"]], sort_keys=True) + t["backend"])
    cov = ctx.cov
    cov["evaluations"] = len(traces)
    cov["traces_validated_against_impl"] = len(traces)
    cov["trace_events"] = sum(acts.values())
    cov["events_by_action"] = acts
    cov["distinct_nontrivial"] = len(nontriv)
    cov["rule"] = rule
    cov["samples"] = [
        {"backend": t["backend"], "wf": t["wf"], "events": [{k: v for k, v in e.items() if k in ("act", "sel", "t", "f", "all", "ok", "id", "hold", "table", "exit", "refused", "reqs")} for e in t["events"]]}
        for t in traces[:2]
    ]
    ctx.assumptions += [
        "schedulers simulated from their documentation (A1); a gwf command is atomic w.r.t. scheduler progress except at the injected fault/crash points (A2)",
        "logical mtimes assigned by the driver; `gwf touch` uses the real clock and only the resulting order is projected (A3)",
        "one gwf invocation at a time per project (A4)",
    ]


def replay(ctx, path, mine):
    v = json.load(open(path))
    s = v["scenario"]
    hist = s.get("hist")
    if not hist:
        print("replay file has no generated history")
        return 2
    scn = {"backend": s["trace"]["backend"], "wf": s["trace"]["wf"], "w": s["events"][0]["w"], "hist": hist}
    tr = projdrive.drive((0, scn, s["trace"]["variant"]))
    verdict = project.validate(ctx, [tr])[0]
    m = [c for c in verdict["failed"] if c.startswith(mine)]
    print(json.dumps(verdict))
    if m:
        print("VIOLATION property=%s replay=%s clauses=%s" % (ctx.pid, path, ",".join(m)))
        return 1
    print("replay passes")
    return 0
