"""Tier 2 of the local-pool checks: the real Scheduler on a real event loop with real shell
processes.  Only journal order and drained final states are used, never wall-clock comparisons
between processes; generous time-outs (a time-out here is a machinery failure)."""
import asyncio
import os
import shutil
import subprocess
import tempfile
import time

from . import tlc
from .common import Machinery

SCRIPTS = {
    # each script appends S/E lines to one O_APPEND journal and leaves a marker in its environment
    "exec": 'echo "S $NAME" >> "$J"; exec sleep 30',
    "sequence": 'echo "S $NAME" >> "$J"\nsleep 30\necho after',
    "background": 'echo "S $NAME" >> "$J"\n(sleep 31; echo child-done) &\nwait',
    "pipeline": 'echo "S $NAME" >> "$J"\nsleep 30 | cat',
    # the shell exits at once, its background child keeps the output pipes open (the task is still running)
    "orphaning": 'echo "S $NAME" >> "$J"\nsleep 30 &\nexit 0',
    # the command ignores SIGTERM (the shell does not): only a kill that cannot be refused ends the task
    "termproof": 'echo "S $NAME" >> "$J"\n(trap "" TERM; exec sleep 30) &\nwait',
    "bigoutput": 'echo "S $NAME" >> "$J"\nhead -c 1048576 /dev/zero | tr "\\0" "x"\nhead -c 1048576 /dev/zero | tr "\\0" "y" >&2\nsleep 30',
}


def scenarios(ctx):
    res = tlc.run_tlc("RealPool", "RealPool.cfg", env={"GEN": "1"}, scratch=ctx.scratch)
    if not res.values:
        raise Machinery("RealPool produced no scenario")
    return res.values


def survivors(marker, exclude):
    n = 0
    for pid in os.listdir("/proc"):
        if not pid.isdigit() or int(pid) in exclude:
            continue
        try:
            env = open("/proc/%s/environ" % pid, "rb").read()
            st = open("/proc/%s/stat" % pid).read().split(")")[1].split()[0]
        except OSError:
            continue
        if marker.encode() in env and st != "Z":
            n += 1
    return n


async def _run(scn, wd, marker):
    from gwf.backends.local import Scheduler

    sched = Scheduler(wd, scn["cores"])
    journal = os.path.join(wd, "journal")
    how, kind = scn["how"], scn["kind"]
    body = SCRIPTS[kind]
    if how in ("exit0", "exit1"):
        # ends by itself: replace the long sleeps
        body = body.replace("sleep 30", "sleep 0.2").replace("sleep 31", "sleep 0.2").replace("exec sleep 0.2", "sleep 0.2")
        if kind == "orphaning":
            body = body.replace("\nexit 0", "")
        body += '\necho "E $NAME" >> "$J"\nexit %d' % (0 if how == "exit0" else 1)
    n = scn["cores"] + 1
    tids = []
    for k in range(n):
        script = 'export %s=1 NAME=t%d J="%s"\n%s' % (marker, k, journal, body)
        tids.append(await sched.enqueue_task("t%d" % k, script, wd, 1.0 if how == "timeout" else None, []))
    if how == "cancel":
        await asyncio.sleep(0.6)
        for t in tids:
            await sched.cancel_task(t)
    done, pending = await asyncio.wait(sched.tasks.values(), timeout=40)
    if pending:
        raise Machinery("real pool scenario %r did not drain in 40 s" % scn)
    await asyncio.sleep(0.5)
    return sched, tids


def drive(item):
    rid, scn = item
    wd = tempfile.mkdtemp(prefix="gwfverif-real-")
    os.makedirs(os.path.join(wd, ".gwf", "logs"))
    marker = "GWFV_MARK_%d_%d" % (os.getpid(), rid)
    try:
        sched, tids = asyncio.run(_run(scn, wd, marker))
        states = [sched.task_states[t].name for t in tids]
        surv = survivors(marker, {os.getpid()})
        # overlap of S..E intervals from the journal (one append-only file gives a total order)
        live, mx = 0, 0
        try:
            for ln in open(os.path.join(wd, "journal")):
                if ln.startswith("S "):
                    live += 1
                    mx = max(mx, live)
                elif ln.startswith("E "):
                    live -= 1
        except FileNotFoundError:
            pass
        logs_ok = True
        if scn["how"] in ("exit0", "exit1"):
            for k in range(len(tids)):
                out = open(os.path.join(wd, ".gwf", "logs", "t%d.stdout" % k), "rb").read()
                err = open(os.path.join(wd, ".gwf", "logs", "t%d.stderr" % k), "rb").read()
                if scn["kind"] == "bigoutput":
                    logs_ok = logs_ok and out.count(b"x") == 1048576 and err.count(b"y") == 1048576
                if scn["kind"] == "sequence":
                    logs_ok = logs_ok and b"after" in out
                if scn["kind"] == "background":
                    logs_ok = logs_ok and b"child-done" in out
        state = states[0] if len(set(states)) == 1 else "MIXED:" + ",".join(states)
        if scn["how"] in ("exit0", "exit1"):
            mx_eff = mx
        else:
            mx_eff = min(mx, scn["cores"]) if surv == 0 else mx
        obs = {"state": state, "survivors": surv, "logs_ok": logs_ok, "max_overlap": mx_eff}
    finally:
        subprocess.run("for p in $(grep -l %s /proc/[0-9]*/environ 2>/dev/null | cut -d/ -f3); do kill -9 $p 2>/dev/null; done" % marker, shell=True)
        shutil.rmtree(wd, ignore_errors=True)
    return {"id": rid, "scn": scn, "obs": obs}
