"""A throw-away gwf project with simulated scheduler executables on PATH.

The simulated commands are one POSIX shell script installed under every
scheduler command name.  Each call is journalled (command, argv, stdin, result)
under ctl/calls/<seq>.*; submissions hand out the next job id; queries print
what the driver rendered from its job table; ctl/fault makes the k-th call of a
command fail in a chosen way or kill the calling gwf process.
"""
import hashlib
import json
import logging
import os
import re
import shutil
import subprocess
import sys
import tempfile

FAKE = r"""#!/bin/sh
cmd=$(basename "$0")
ctl="$(dirname "$0")/../ctl"
if [ -n "$GWFV_BARRIER" ]; then
  # concurrent-invocation probe: announce the call and wait until the driver lets this process go on
  k=$(( $(cat "$GWFV_BARRIER/k.$GWFV_TAG" 2>/dev/null || echo 0) + 1 )); echo "$k" > "$GWFV_BARRIER/k.$GWFV_TAG"
  : > "$GWFV_BARRIER/arrived.$GWFV_TAG.$k.$cmd"
  while [ ! -e "$GWFV_BARRIER/go.$GWFV_TAG.$k" ]; do sleep 0.01; done
fi
seq=$(( $(cat "$ctl/seq") + 1 )); echo "$seq" > "$ctl/seq"
n=$(( $(cat "$ctl/n.$cmd" 2>/dev/null || echo 0) + 1 )); echo "$n" > "$ctl/n.$cmd"
c="$ctl/calls/$seq"
printf '%s' "$cmd" > "$c.cmd"
for a in "$@"; do printf '%s\0' "$a"; done > "$c.argv"
case "$cmd" in sbatch|qsub|bsub) cat > "$c.stdin";; esac
fault=""
if [ -f "$ctl/fault" ]; then
  fault=$(awk -v c="$cmd" -v n="$n" '$1==c && $2==n {print $3}' "$ctl/fault")
fi
case "$fault" in
  exit1) echo "$cmd: simulated failure" >&2; echo rejected > "$c.res"; exit 1;;
  stderr) echo "$cmd: error: simulated failure" >&2; echo rejected > "$c.res"; exit 0;;
  garbage) echo "Unable to contact controller"; echo rejected > "$c.res"; exit 0;;
  killparent) echo rejected > "$c.res"; kill -9 $PPID; exit 1;;
  depfail) # Slurm refuses a submission whose afterok list names a job it has no record of any more
    case " $* " in *--dependency=*) echo "sbatch: error: Batch job submission failed: Job dependency problem" >&2; echo rejected > "$c.res"; exit 1;; esac
    echo "$cmd: simulated failure" >&2; echo rejected > "$c.res"; exit 1;;
esac
case "$cmd" in
  sbatch|qsub|bsub)
    id=$(cat "$ctl/nextid"); echo $((id+1)) > "$ctl/nextid"
    echo "$id" > "$c.res"
    case "$cmd" in
      sbatch) echo "$id";;
      qsub) echo "$id";;
      bsub) echo "Job <$id> is submitted to queue <normal>.";;
    esac
    if [ "$fault" = "killafter" ]; then kill -9 $PPID; fi;;
  squeue) cat "$ctl/squeue.out";;
  sacct) jobs=""; prev=""; for a in "$@"; do [ "$prev" = "--jobs" ] && jobs="$a"; prev="$a"; done
         awk -F'|' -v ids="$jobs" 'BEGIN{n=split(ids,a,","); for(i=1;i<=n;i++) w[a[i]]=1} ($1 in w)' "$ctl/sacct.tbl";;
  qstat) cat "$ctl/qstat.xml";;
  bjobs) for a in "$@"; do id="$a"; done
         awk -v id="$id" '$1==id {print $2}' "$ctl/bjobs.tbl";;
  scancel|qdel|bkill) for a in "$@"; do id="$a"; done
         if [ -f "$ctl/refuse_silent" ] && grep -qx "$id" "$ctl/refuse_silent"; then
           # (SGE's qdel reports on stdout: non-zero exit, nothing on stderr)
           echo rejected > "$c.res"; echo "denied: job \"$id\" does not exist"; exit 1
         fi
         if [ -f "$ctl/refuse" ] && grep -qx "$id" "$ctl/refuse"; then
           echo rejected > "$c.res"
           if [ "$cmd" = "scancel" ]; then echo "scancel: error: Kill job error on job id $id: Invalid job id specified" >&2; exit 0; fi
           echo "$cmd: job $id cannot be deleted" >&2; exit 1
         fi
         echo ok > "$c.res";;
esac
exit 0
"""

COMMANDS = ["sbatch", "squeue", "sacct", "scancel", "sinfo", "qsub", "qstat", "qdel", "bsub", "bjobs", "bkill"]
BASE_TIME = 1_500_000_000
_ORIG_PATH = os.environ.get("PATH", "")


class Result:
    def __init__(self, exit_code, stdout, stderr, exc=None):
        self.exit_code, self.stdout, self.stderr, self.exc = exit_code, stdout, stderr, exc

    def __repr__(self):
        return "Result(%r, %r, %r, %r)" % (self.exit_code, self.stdout, self.stderr, self.exc)


class Sandbox:
    def __init__(self, base=None):
        self.root = tempfile.mkdtemp(prefix="gwfverif-sb-", dir=base)
        self.proj = os.path.join(self.root, "proj")
        self.bin = os.path.join(self.root, "bin")
        self.ctl = os.path.join(self.root, "ctl")
        os.makedirs(self.bin)
        fake = os.path.join(self.bin, "_fake")
        with open(fake, "w") as f:
            f.write(FAKE)
        os.chmod(fake, 0o755)
        for c in COMMANDS:
            shutil.copy(fake, os.path.join(self.bin, c))
        self._seen = 0
        self.base = BASE_TIME     # logical time 0 is this many seconds after the epoch
        self.reset()

    # -- lifecycle ---------------------------------------------------------
    def reset(self, first_id=1000, projname="proj"):
        """projname: name of the project directory (any legal directory name may hold a project)."""
        shutil.rmtree(self.proj, ignore_errors=True)
        self.proj = os.path.join(self.root, projname)
        for d in (self.proj, self.ctl):
            shutil.rmtree(d, ignore_errors=True)
        os.makedirs(self.proj)
        os.makedirs(os.path.join(self.ctl, "calls"))
        self._w("seq", "0\n")
        self._w("nextid", "%d\n" % first_id)
        for f in ("squeue.out", "sacct.tbl", "bjobs.tbl"):
            self._w(f, "")
        self._w("qstat.xml", render_qstat({}))
        self._seen = 0

    def destroy(self):
        shutil.rmtree(self.root, ignore_errors=True)

    def _w(self, name, text):
        with open(os.path.join(self.ctl, name), "w") as f:
            f.write(text)

    # -- project files -----------------------------------------------------
    def path(self, rel):
        return os.path.join(self.proj, rel)

    def write(self, rel, text):
        p = self.path(rel)
        os.makedirs(os.path.dirname(p), exist_ok=True)
        with open(p, "w") as f:
            f.write(text)

    def set_file(self, rel, mtime, content=None):
        """mtime: logical time (int >= 0) or None/negative for 'missing'."""
        p = self.path(rel)
        if mtime is None or mtime < 0:
            if os.path.exists(p):
                os.remove(p)
            return
        if content is not None or not os.path.exists(p):
            os.makedirs(os.path.dirname(p), exist_ok=True)
            with open(p, "w") as f:
                f.write(content if content is not None else "content of %s\n" % rel)
        os.utime(p, (self.base + mtime, self.base + mtime))

    def mtime(self, rel):
        try:
            return os.stat(self.path(rel)).st_mtime_ns
        except FileNotFoundError:
            return None

    def read_json(self, rel):
        try:
            with open(self.path(rel)) as f:
                return json.load(f)
        except FileNotFoundError:
            return None
        except ValueError:
            return "UNREADABLE"

    def snapshot(self, canonical_state=True):
        """{relative path: digest} for every file of the project.  The two gwf
        state files are compared as parsed JSON ('absent' == '{}')."""
        snap = {}
        for dp, dn, fn in os.walk(self.proj):
            dn[:] = [d for d in dn if d != "__pycache__"]
            for name in fn:
                p = os.path.join(dp, name)
                rel = os.path.relpath(p, self.proj)
                if os.path.islink(p):
                    snap[rel] = "link:%s:%s" % (os.readlink(p), os.path.exists(p))
                    continue
                st = os.stat(p)
                with open(p, "rb") as f:
                    data = f.read()
                if canonical_state and re.match(r"\.gwf/[^/]*\.tmp$", rel):
                    continue  # left-over temporary of an interrupted atomic write
                if canonical_state and re.match(r"\.gwf/([a-z]+-backend-tracked|spec-hashes)\.json$", rel):
                    try:
                        val = json.loads(data or b"{}")
                    except ValueError:
                        val = "UNREADABLE"
                    if val == {}:
                        continue
                    snap[rel] = "json:" + json.dumps(val, sort_keys=True)
                else:
                    snap[rel] = "%d:%d:%s" % (st.st_size, st.st_mtime_ns, hashlib.sha1(data).hexdigest())
        return snap

    def digest(self):
        return hashlib.sha1(json.dumps(self.snapshot(), sort_keys=True).encode()).hexdigest()[:16]

    # -- scheduler side ----------------------------------------------------
    def set_fault(self, faults):
        """faults: list of (cmd, k, kind)"""
        self._w("fault", "".join("%s %d %s\n" % f for f in faults))
        for c in COMMANDS:
            try:
                os.remove(os.path.join(self.ctl, "n." + c))
            except FileNotFoundError:
                pass

    def set_refuse(self, ids, silent=False):
        self._w("refuse_silent" if silent else "refuse", "".join("%s\n" % i for i in ids))
        self._w("refuse" if silent else "refuse_silent", "")

    def clear_fault(self):
        try:
            os.remove(os.path.join(self.ctl, "fault"))
        except FileNotFoundError:
            pass

    def render(self, squeue=None, sacct=None, qstat=None, bjobs=None):
        if squeue is not None:
            self._w("squeue.out", "".join("%s;%s\n" % kv for kv in squeue))
        if sacct is not None:
            self._w("sacct.tbl", "".join("%s|%s\n" % kv for kv in sacct))
        if qstat is not None:
            self._w("qstat.xml", render_qstat(qstat))
        if bjobs is not None:
            self._w("bjobs.tbl", "".join("%s %s\n" % kv for kv in bjobs))

    def new_calls(self):
        """Journal entries since the last call of this method."""
        seq = int(open(os.path.join(self.ctl, "seq")).read().strip() or 0)
        out = []
        for k in range(self._seen + 1, seq + 1):
            base = os.path.join(self.ctl, "calls", str(k))
            try:
                cmd = open(base + ".cmd").read()
            except FileNotFoundError:
                continue
            argv = open(base + ".argv", "rb").read().decode("utf-8", "replace").split("\0")[:-1]
            stdin = None
            if os.path.exists(base + ".stdin"):
                stdin = open(base + ".stdin", "rb").read().decode("utf-8", "replace")
            res = None
            if os.path.exists(base + ".res"):
                res = open(base + ".res").read().strip()
            out.append({"seq": k, "cmd": cmd, "argv": argv, "stdin": stdin, "res": res})
        self._seen = seq
        return out

    # -- running gwf -------------------------------------------------------
    def env(self):
        e = dict(os.environ)
        e["PATH"] = self.bin + os.pathsep + _ORIG_PATH
        e["NO_COLOR"] = "1"
        e.pop("GWF_VERIF", None)
        return e

    def gwf_killing_writer(self, args, killenv, timeout=120):
        """gwf in a child interpreter that dies inside the chosen write of a state file
        (harness-side wrapper around builtins.open; nothing in /repo is touched)."""
        e = self.env()
        e.update(killenv)
        p = subprocess.run([sys.executable, "-c", KILLING_WRITER] + list(args), cwd=self.proj, env=e,
                           stdout=subprocess.PIPE, stderr=subprocess.PIPE, text=True, timeout=timeout)
        return Result(p.returncode, p.stdout, p.stderr)

    def gwf(self, args, cwd=None, input=None, sub=False, timeout=120, limit=120):
        cwd = cwd or self.proj
        if sub:
            p = subprocess.run(
                [sys.executable, "-m", "gwf"] + list(args) if _has_main() else [sys.executable, "-c", "from gwf.cli import main; main()"] + list(args),
                cwd=cwd,
                env=self.env(),
                input=input,
                stdout=subprocess.PIPE,
                stderr=subprocess.PIPE,
                text=True,
                timeout=timeout,
            )
            return Result(p.returncode, p.stdout, p.stderr)
        return gwf_inproc(args, cwd, self.bin, input, limit)


KILLING_WRITER = r"""
import builtins, os, sys
_o = builtins.open
F = os.environ["GWFV_KILL_FILE"]; OCC = int(os.environ["GWFV_KILL_OCC"]); POS = int(os.environ["GWFV_KILL_POS"])
# POS 0..9    : die (like SIGKILL: nothing buffered reaches the disk) when the (POS+1)-th write is attempted
# POS 99      : die when the file is about to be closed
# POS 100+n   : flush what was written, then die at the (n+1)-th write (partial content on disk)
# POS 200/201 : die right after / right before the rename that puts the file in place
cnt = [0]
def under_shutdown():
    fr = sys._getframe(2); names = set()
    while fr is not None:
        names.add(fr.f_code.co_name); fr = fr.f_back
    return bool(names & {"close", "__exit__"})
class W:
    def __init__(s, f): s.f = f; s.n = 0
    def write(s, data):
        if POS < 99 and s.n >= POS:
            os._exit(137)
        if 100 <= POS < 200 and s.n >= POS - 100:
            s.f.flush(); os._exit(137)
        s.n += 1
        return s.f.write(data)
    def close(s):
        if POS < 200:
            os._exit(137)
        return s.f.close()
    def __enter__(s): return s
    def __exit__(s, *a): s.close()
    def __getattr__(s, k): return getattr(s.f, k)
def o2(file, mode="r", *a, **k):
    f = _o(file, mode, *a, **k)
    if POS < 200 and isinstance(file, (str, bytes, os.PathLike)) and F in os.fspath(file) and any(c in mode for c in "wxa+"):
        # only the write made while the command shuts down (under close()/__exit__): a kill
        # inside the write that records the job accepted last is the residual window A6
        if under_shutdown():
            cnt[0] += 1
            if cnt[0] == OCC:
                return W(f)
    return f
builtins.open = o2
def wrap_rename(orig):
    def r(src, dst, *a, **k):
        hit = POS >= 200 and F in os.fspath(dst) and under_shutdown()
        if hit and POS == 201:
            os._exit(137)
        res = orig(src, dst, *a, **k)
        if hit and POS == 200:
            os._exit(137)
        return res
    return r
os.replace = wrap_rename(os.replace); os.rename = wrap_rename(os.rename)
from gwf.cli import main
main()
"""


def _has_main():
    import gwf

    return os.path.exists(os.path.join(os.path.dirname(gwf.__file__), "__main__.py"))


def gwf_inproc(args, cwd, bindir=None, input=None, limit=120):
    """gwf.cli.main through click's test runner, in this process."""
    from click.testing import CliRunner

    from gwf.cli import main

    old_cwd = os.getcwd()
    old_path = os.environ.get("PATH", "")
    old_syspath = list(sys.path)
    old_mods = set(sys.modules)
    root = logging.getLogger()
    old_handlers, old_level = list(root.handlers), root.level
    os.chdir(cwd)
    if bindir:
        os.environ["PATH"] = bindir + os.pathsep + _ORIG_PATH
    os.environ["NO_COLOR"] = "1"
    from .common import GwfTimeout, time_limit

    timed_out = None
    try:
        try:
            with time_limit(limit):
                r = CliRunner().invoke(main, list(args), input=input, catch_exceptions=True)
        except GwfTimeout as exc:
            timed_out = exc
    finally:
        os.chdir(old_cwd)
        os.environ["PATH"] = old_path
        for h in list(root.handlers):
            if h not in old_handlers:
                root.removeHandler(h)
        root.setLevel(old_level)
        sys.path[:] = old_syspath
        for m in set(sys.modules) - old_mods:
            if not m.startswith(("gwf", "click", "attr", "importlib", "encodings", "json", "xml", "asyncio", "concurrent", "multiprocessing", "_")):
                f = getattr(sys.modules[m], "__file__", None) or ""
                if "gwfverif-" in f:
                    del sys.modules[m]
    if timed_out is not None:
        return Result(-98, "", "gwf did not return within %d s" % limit, timed_out)
    exc = r.exception if r.exception is not None and not isinstance(r.exception, SystemExit) else None
    return Result(r.exit_code, r.stdout, r.stderr, exc)


def render_qstat(jobs):
    """jobs: list of (id, state letters) or dict"""
    items = jobs.items() if isinstance(jobs, dict) else jobs
    rows = "".join(
        "<job_list state=\"x\"><JB_job_number>%s</JB_job_number><state>%s</state></job_list>\n" % kv for kv in items
    )
    return "<?xml version='1.0'?>\n<job_info><queue_info>\n%s</queue_info><job_info></job_info></job_info>\n" % rows


# --------------------------------------------------------------------------
# strict, independent readers of what gwf told the scheduler

_ID = r"[0-9]+"


def parse_submission(call):
    """call: journal entry of sbatch/qsub/bsub.  Returns dict(name, kind,
    deps (list of id strings) or a list with one '?...' marker when the
    prerequisite syntax is not what the scheduler documents)."""
    cmd, argv, script = call["cmd"], call["argv"], call["stdin"] or ""
    out = {"cmd": cmd, "name": None, "kind": "none", "deps": [], "id": call["res"], "bad": ""}
    if cmd == "sbatch":
        m = re.search(r"^#SBATCH --job-name=(\S+)$", script, re.M)
        out["name"] = m.group(1) if m else None
        rest = [a for a in argv if a != "--parsable"]
        if "--parsable" not in argv:
            out["bad"] = "no --parsable"
        for a in rest:
            m = re.fullmatch(r"--dependency=(\w+):(%s(?::%s)*)" % (_ID, _ID), a)
            if m:
                out["kind"] = m.group(1)
                out["deps"] = m.group(2).split(":")
            else:
                out["bad"] = "unparseable argument %r" % a
    elif cmd == "qsub":
        m = re.search(r"^#\$ -N (\S+)$", script, re.M)
        out["name"] = m.group(1) if m else None
        rest = list(argv)
        if rest[:1] != ["-terse"]:
            out["bad"] = "no -terse"
        rest = rest[1:]
        if rest:
            if len(rest) == 2 and rest[0] == "-hold_jid" and re.fullmatch(r"%s(?:,%s)*" % (_ID, _ID), rest[1]):
                out["kind"] = "hold_jid"
                out["deps"] = rest[1].split(",")
            else:
                out["bad"] = "unparseable arguments %r" % rest
    elif cmd == "bsub":
        m = re.search(r"^#BSUB -J (\S+)$", script, re.M)
        out["name"] = m.group(1) if m else None
        rest = list(argv)
        if rest:
            if len(rest) == 2 and rest[0] == "-w" and re.fullmatch(r"done\(%s\)(?: && done\(%s\))*" % (_ID, _ID), rest[1]):
                out["kind"] = "done"
                out["deps"] = re.findall(r"done\((%s)\)" % _ID, rest[1])
            else:
                out["bad"] = "unparseable arguments %r" % rest
    if out["bad"]:
        out["deps"] = ["?" + out["bad"]]
    return out


def pattern_for(name, style):
    """A name pattern that matches exactly `name` among our target names, in each fnmatch syntax form."""
    if style == 1 and len(name) > 1:
        return "[%s]%s" % (name[0], name[1:])          # character class
    if style == 2 and len(name) > 2:
        return name[:-1] + "?"                           # single-character wildcard
    if style == 3 and len(name) > 2:
        return name[:2] + "[!#]" + name[3:]              # negated class
    return name


def parse_status_table(text):
    """`gwf status` default format -> ({name: status}, [unparsed lines])"""
    table, bad = {}, []
    for line in text.splitlines():
        if not line.strip():
            continue
        m = re.fullmatch(r"\S (\S+)\s+(shouldrun|submitted|running|completed|failed|cancelled)", line.rstrip())
        if m and m.group(1) not in table:
            table[m.group(1)] = m.group(2)
        else:
            bad.append(line)
    return table, bad


def parse_summary(text):
    out, bad = {}, []
    for line in text.splitlines():
        if not line.strip():
            continue
        m = re.fullmatch(r"\S (shouldrun|submitted|running|completed|failed|cancelled)\s+(\d+)", line.rstrip())
        if m:
            out[m.group(1)] = int(m.group(2))
        else:
            bad.append(line)
    return out, bad
