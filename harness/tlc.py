"""Thin wrapper around TLC (tla2tools 1.8.0): run a module with a cfg, collect
state counts, coverage and the JSON values the specification printed.

Every value a specification wants to hand to the Python side is printed with
``PrintT(ToJson(v))``; TLC renders that as one TLA+ string literal per line,
which :func:`_unquote` turns back into the JSON text.
"""
import json
import os
import re
import shutil
import subprocess
import tempfile
import time

SPEC_DIR = os.path.join(os.path.dirname(os.path.dirname(os.path.abspath(__file__))), "spec")
CP = "/opt/veriftools/tla/tla2tools.jar:/opt/veriftools/tla/CommunityModules-deps.jar"


class TLCError(Exception):
    """Machinery failure (parse error, evaluation error, time-out) - exit 2."""


class TLCResult:
    def __init__(self):
        self.stdout = ""
        self.generated = 0
        self.distinct = 0
        self.depth = 0
        self.values = []  # decoded JSON values printed by the spec
        self.violated = None  # name of a violated invariant/property, if any
        self.coverage = {}  # action name -> (distinct, total)
        self.wall = 0.0
        self.errtext = ""


_ESC = re.compile(r"\\(.)")


def _unquote(line):
    body = line[1:-1]
    return _ESC.sub(lambda m: {"n": "\n", "t": "\t", "r": "\r", "f": "\f"}.get(m.group(1), m.group(1)), body)


def run_tlc(
    module,
    cfg,
    *,
    env=None,
    workers=1,
    seed=0,
    simulate=None,
    depth=None,
    timeout=900,
    coverage=False,
    xmx="3g",
    deadlock=None,
    extra=(),
    spec_dir=SPEC_DIR,
    allow_violation=False,
    scratch=None,
):
    """Run TLC on spec/<module>.tla with spec/<cfg>.  Returns a TLCResult.

    ``simulate`` is the ``num=`` argument of ``-simulate``; ``depth`` its depth.
    Raises TLCError unless TLC finished (with or without a property violation).
    """
    res = TLCResult()
    metadir = tempfile.mkdtemp(prefix="tlcmeta-", dir=scratch)
    cmd = [
        "java",
        "-XX:+UseParallelGC" if workers > 1 else "-XX:+UseSerialGC",
        "-Xmx" + xmx,
        "-Xss16m",
        "-cp",
        CP,
        "tlc2.TLC",
        "-metadir",
        metadir,
        "-noGenerateSpecTE",
        "-workers",
        str(workers),
        "-seed",
        str(seed),
        "-config",
        cfg,
    ]
    if simulate is not None:
        cmd += ["-simulate", "num=%d" % simulate]
        if depth is not None:
            cmd += ["-depth", str(depth)]
    if coverage:
        cmd += ["-coverage", "1"]
    if deadlock is False:
        cmd += ["-deadlock"]
    cmd += list(extra)
    cmd.append(module)
    e = dict(os.environ)
    e.pop("JAVA_TOOL_OPTIONS", None)
    if env:
        e.update({k: str(v) for k, v in env.items()})
    t0 = time.time()

    def _lift_limits():
        import resource

        soft, hard = resource.getrlimit(resource.RLIMIT_AS)
        resource.setrlimit(resource.RLIMIT_AS, (hard, hard))

    try:
        p = subprocess.run(
            cmd, cwd=spec_dir, env=e, stdout=subprocess.PIPE, stderr=subprocess.STDOUT, timeout=timeout, text=True,
            preexec_fn=_lift_limits,
        )
    except subprocess.TimeoutExpired as exc:
        shutil.rmtree(metadir, ignore_errors=True)
        raise TLCError("TLC timed out after %ss on %s/%s" % (timeout, module, cfg)) from exc
    finally:
        shutil.rmtree(metadir, ignore_errors=True)
    res.wall = time.time() - t0
    res.stdout = out = p.stdout
    for line in out.splitlines():
        if len(line) >= 2 and line[0] == '"' and line[-1] == '"':
            txt = _unquote(line)
            if txt[:1] in "{[":
                try:
                    res.values.append(json.loads(txt))
                except ValueError:
                    pass
    m = re.findall(r"(\d+) states generated, (\d+) distinct states found", out)
    if m:
        res.generated, res.distinct = int(m[-1][0]), int(m[-1][1])
    m = re.search(r"The depth of the complete state graph search is (\d+)", out)
    if m:
        res.depth = int(m.group(1))
    m = re.search(r"Error: Invariant (\S+) is violated", out)
    if m:
        res.violated = m.group(1)
    m = re.search(r"Error: Action property (\S+) is violated", out)
    if m:
        res.violated = m.group(1)
    if "Temporal properties were violated" in out:
        res.violated = res.violated or "temporal"
    if coverage:
        for m in re.finditer(r"^<(\w+) line \d+, col \d+ to line \d+, col \d+ of module (\w+)>: (\d+):(\d+)", out, re.M):
            name = m.group(1)
            d, t = int(m.group(3)), int(m.group(4))
            od, ot = res.coverage.get(name, (0, 0))
            res.coverage[name] = (od + d, ot + t)
    finished = (
        "Model checking completed" in out
        or "Finished in" in out
        and ("states generated" in out or simulate is not None)
    )
    hard = re.search(
        r"(Parsing or semantic analysis failed|Error: TLC threw|Error: Attempted|Error: The error occurred|"
        r"Error: Evaluating|TLC encountered|java\.lang\.\w+Error|Exception in thread|Error: In evaluation|"
        r"Error: The first argument|Error: Assumption|Error: Deadlock reached|Error: The spec)",
        out,
    )
    if hard or not finished:
        res.errtext = out[-4000:]
        raise TLCError("TLC failed on %s/%s:\n%s" % (module, cfg, res.errtext))
    if res.violated and not allow_violation:
        res.errtext = out[-6000:]
    return res


def sany(module, spec_dir=SPEC_DIR):
    p = subprocess.run(
        ["java", "-cp", CP, "tla2sany.SANY", module + ".tla"],
        cwd=spec_dir,
        stdout=subprocess.PIPE,
        stderr=subprocess.STDOUT,
        text=True,
    )
    ok = p.returncode == 0 and "Semantic errors" not in p.stdout and "***Parse Error***" not in p.stdout and "Fatal errors" not in p.stdout
    return ok, p.stdout
