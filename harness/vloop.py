"""A virtual-time asyncio event loop and controllable fake child processes, so
that the real gwf.backends.local.Scheduler / Server can be stepped through
TLC-generated event sequences deterministically and in microseconds."""
import asyncio
import selectors


class _NullSelector(selectors.BaseSelector):
    """Never blocks: a positive or infinite timeout means "nothing left to do at the
    current instant", so the loop is told to stop instead of sleeping."""

    def __init__(self, loop_ref):
        self._loop_ref = loop_ref
        self._map = {}

    def register(self, fileobj, events, data=None):
        key = selectors.SelectorKey(fileobj, fileobj if isinstance(fileobj, int) else fileobj.fileno(), events, data)
        self._map[key.fd] = key
        return key

    def unregister(self, fileobj):
        fd = fileobj if isinstance(fileobj, int) else fileobj.fileno()
        return self._map.pop(fd, None)

    def modify(self, fileobj, events, data=None):
        self.unregister(fileobj)
        return self.register(fileobj, events, data)

    def select(self, timeout=None):
        if timeout is None or timeout > 0:
            self._loop_ref[0].stop()
        return []

    def get_map(self):
        return self._map

    def close(self):
        self._map.clear()


class VirtualLoop(asyncio.SelectorEventLoop):
    def __init__(self):
        ref = [None]
        super().__init__(_NullSelector(ref))
        ref[0] = self
        self._vt = 0.0

    def time(self):
        return self._vt

    def idle(self):
        """Run everything that is ready at the current instant."""
        self.call_soon(lambda: None)
        self.run_forever()

    def next_timer(self):
        whens = [h._when for h in self._scheduled if not h._cancelled]
        return min(whens) if whens else None

    def advance(self):
        """Jump to the earliest pending timer and run what becomes ready."""
        w = self.next_timer()
        if w is None:
            return False
        self._vt = max(self._vt, w)
        self.idle()
        return True


import itertools
import os

# Fake processes get pids above any real pid; os.kill / os.killpg on such a pid is routed to the
# fake process, so the pool may signal the process or its process group, whichever way it likes.
_FAKE_PIDS = itertools.count(2**30)
_REGISTRY = {}
_ORIG_KILL, _ORIG_KILLPG, _ORIG_GETPGID = os.kill, os.killpg, os.getpgid


def _kill(pid, sig):
    if pid in _REGISTRY:
        return _REGISTRY[pid].send_signal(sig)
    return _ORIG_KILL(pid, sig)


def _killpg(pgid, sig):
    if pgid in _REGISTRY:
        return _REGISTRY[pgid].send_signal(sig)
    return _ORIG_KILLPG(pgid, sig)


def _getpgid(pid):
    return pid if pid in _REGISTRY else _ORIG_GETPGID(pid)


os.kill, os.killpg, os.getpgid = _kill, _killpg, _getpgid


class FakeProc:
    """Stands in for asyncio.subprocess.Process."""

    def __init__(self, loop, key, stdout=b"", stderr=b""):
        self.loop = loop
        self.key = key
        self.returncode = None
        self.pid = next(_FAKE_PIDS)
        _REGISTRY[self.pid] = self
        self._out, self._err = stdout, stderr
        self._waiters = []
        self.signals = []

    def _wait_fut(self):
        fut = self.loop.create_future()
        if self.returncode is not None:
            fut.set_result(self.returncode)
        else:
            self._waiters.append(fut)
        return fut

    def communicate(self, input=None):
        # a future, not a coroutine: callers that drop it (wait_for raising early) leave nothing un-awaited
        res = self.loop.create_future()
        w = self._wait_fut()

        def done(f):
            if not res.done():
                if f.cancelled():
                    res.cancel()
                else:
                    res.set_result((self._out, self._err))

        w.add_done_callback(done)
        res.add_done_callback(lambda r: (w.cancel() if r.cancelled() and not w.done() else None))
        return res

    async def wait(self):
        await self._wait_fut()
        return self.returncode

    def exit(self, rc):
        if self.returncode is not None:
            return
        self.returncode = rc
        for f in self._waiters:
            if not f.done():
                f.set_result(rc)
        self._waiters = []

    def kill(self):
        self.signals.append("KILL")
        self.exit(-9)

    def terminate(self):
        self.signals.append("TERM")
        self.exit(-15)

    def send_signal(self, sig):
        if self.returncode is not None:
            raise ProcessLookupError(self.pid)
        self.signals.append(int(sig))
        if int(sig) != 0:
            self.exit(-int(sig))
