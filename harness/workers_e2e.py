"""End-to-end tier for the local back end: the real `gwf workers` command as a child process (real TCP
server), healthy `gwf -b local run/status/cancel` invocations alongside a raw-socket client that
misbehaves.  Observations: start/end journal written by the jobs (one O_APPEND file), what the healthy
commands print, and whether the pool still serves afterwards.  Real time is used only for waiting
(generous time-outs; a time-out is a machinery failure, never a verdict)."""
import json
import os
import socket
import subprocess
import sys
import tempfile
import time
import shutil

from .sandbox import parse_status_table


def free_port():
    s = socket.socket()
    s.bind(("127.0.0.1", 0))
    p = s.getsockname()[1]
    s.close()
    return p


class Unanswered(Exception):
    """A healthy gwf command got no answer from the pool in time: an observation (the pool hangs)."""


class _NoAnswer:
    returncode, stdout, stderr = -98, "", "no answer from the worker pool"


def gwf(proj, args, timeout=25):
    env = dict(os.environ, NO_COLOR="1")
    try:
        return subprocess.run([sys.executable, "-c", "from gwf.cli import main; main()"] + list(args), cwd=proj, env=env,
                              stdout=subprocess.PIPE, stderr=subprocess.PIPE, text=True, timeout=timeout)
    except subprocess.TimeoutExpired:
        raise Unanswered(" ".join(args))


def wait_until(pred, timeout=30.0, step=0.05):
    end = time.time() + timeout
    while time.time() < end:
        if pred():
            return True
        time.sleep(step)
    return False


def journal(path):
    try:
        return open(path).read().split("\n")[:-1]
    except FileNotFoundError:
        return []


MISBEHAVIOUR = {
    "garbage": b"this is not json\n",
    "array": b"[1,2,3]\n",
    "nokind": b'{"name": "x"}\n',
    "cancel_unknown": b'{"__kind__": "cancel_task", "tid": 12345}\n',
    "enq_missing": b'{"__kind__": "enqueue_task", "name": "x"}\n',
    "invalid_utf8": b"\xff\xfe\x00\n",
    "half_line_then_drop": b'{"__kind__": "enqueue_ta',
    "drop": b"",
    # asks for the state table tens of thousands of times, never reads an answer and stays connected: its unread
    # answers fill every buffer on the way and the pool's handler for this client stalls - only that one may
    "flood_no_read": b'{"__kind__": "get_task_states"}\n' * 40000,
}


def scenario(cores, ntasks, misbehave):
    """Returns the observation dict of one end-to-end run."""
    proj = tempfile.mkdtemp(prefix="gwfverif-e2e-")
    port = free_port()
    jpath = os.path.join(proj, "journal")
    rel = os.path.join(proj, "release")
    os.makedirs(rel)
    names = ["job%d" % k for k in range(ntasks)]
    lines = ["from gwf import Workflow", "gwf = Workflow()"]
    for n in names:
        spec = ('echo "S %s" >> "%s"\n'
                'i=0; while [ ! -f "%s/%s" ]; do sleep 0.02; i=$((i+1)); [ $i -gt 3000 ] && exit 9; done\n'
                'echo "E %s" >> "%s"\necho done > %s.out\n') % (n, jpath, rel, n, n, jpath, n)
        lines.append("gwf.target(%r, inputs=[], outputs=[%r]) << %r" % (n, n + ".out", spec))
    open(os.path.join(proj, "workflow.py"), "w").write("\n".join(lines) + "\n")
    open(os.path.join(proj, ".gwfconf.json"), "w").write(json.dumps({"backend": "local", "backend.local.port": port, "backend.local.host": "127.0.0.1"}))
    os.makedirs(os.path.join(proj, ".gwf", "logs"))
    env = dict(os.environ, NO_COLOR="1")
    workers = subprocess.Popen([sys.executable, "-c", "from gwf.cli import main; main()", "workers", "-n", str(cores), "-p", str(port), "-h", "127.0.0.1"],
                               cwd=proj, env=env, stdout=subprocess.PIPE, stderr=subprocess.PIPE, start_new_session=True)
    obs = {"started": False, "run_exit": -1, "max_live": 0, "status_ok": False, "all_completed": False, "served_after": False,
           "bad_sent": list(misbehave), "cancel_exit": -1}
    held = []
    try:
        def up():
            try:
                socket.create_connection(("127.0.0.1", port), timeout=0.2).close()
                return True
            except OSError:
                return False

        obs["started"] = wait_until(up, 20)
        if not obs["started"]:
            return obs
        r = gwf(proj, ["run"])
        obs["run_exit"] = r.returncode
        # the pool may run at most `cores` jobs at once: wait until it has started as many as it will
        wait_until(lambda: sum(1 for ln in journal(jpath) if ln.startswith("S ")) >= min(cores, ntasks), 20)
        time.sleep(0.4)   # give a pool that over-commits the time to do so
        # a misbehaving client, in the middle of things
        for kind in misbehave:
            try:
                if kind == "flood_no_read":
                    s = socket.socket()
                    s.setsockopt(socket.SOL_SOCKET, socket.SO_RCVBUF, 4096)
                    s.settimeout(3)
                    s.connect(("127.0.0.1", port))
                    held.append(s)
                    try:
                        s.sendall(MISBEHAVIOUR[kind])
                    except OSError:
                        pass        # the pool stopped reading from this client: as intended
                    time.sleep(0.3)
                    continue
                s = socket.create_connection(("127.0.0.1", port), timeout=2)
                if MISBEHAVIOUR[kind]:
                    s.sendall(MISBEHAVIOUR[kind])
                time.sleep(0.05)
                s.close()
            except OSError:
                pass
        # a healthy status query must be answered truthfully: running = started and not ended
        r = gwf(proj, ["status"])
        table, bad = parse_status_table(r.stdout)
        js = journal(jpath)
        started = {ln[2:] for ln in js if ln.startswith("S ")}
        obs["status_ok"] = r.returncode == 0 and not bad and all(table.get(n) == ("running" if n in started else "submitted") for n in names)
        obs["status_table"] = table
        # release jobs one after the other; count how many are alive between S and E
        live, mx = 0, 0
        for n in names:
            open(os.path.join(rel, n), "w").close()
            wait_until(lambda n=n: ("E " + n) in journal(jpath) or (("S " + n) not in journal(jpath)), 20)
        wait_until(lambda: sum(1 for ln in journal(jpath) if ln.startswith("E ")) == ntasks, 40)
        for ln in journal(jpath):
            if ln.startswith("S "):
                live += 1
                mx = max(mx, live)
            elif ln.startswith("E "):
                live -= 1
        obs["max_live"] = mx
        wait_until(lambda: all(os.path.exists(os.path.join(proj, n + ".out")) for n in names), 20)
        time.sleep(0.3)
        r = gwf(proj, ["status"])
        table, bad = parse_status_table(r.stdout)
        obs["all_completed"] = r.returncode == 0 and all(table.get(n) == "completed" for n in names)
        obs["final_table"] = table
        # the pool still accepts work from a new client
        os.remove(os.path.join(proj, names[0] + ".out"))
        r = gwf(proj, ["run", names[0]])
        open(os.path.join(rel, names[0]), "w").close()
        obs["served_after"] = r.returncode == 0 and wait_until(lambda: os.path.exists(os.path.join(proj, names[0] + ".out")), 20)
        r = gwf(proj, ["cancel", "-f"])
        obs["cancel_exit"] = r.returncode
    except Unanswered as exc:
        obs["unanswered"] = str(exc)     # the remaining observations keep their "not seen" defaults
    finally:
        for s in held:
            try:
                s.close()
            except OSError:
                pass
        try:
            os.killpg(workers.pid, 9)
        except OSError:
            pass
        workers.wait(timeout=10)
        shutil.rmtree(proj, ignore_errors=True)
    return obs


def drive(item):
    rid, scn = item
    return {"id": rid, "scn": scn, "obs": scenario(scn["cores"], scn["ntasks"], scn["misbehave"])}
