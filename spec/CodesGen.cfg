
