------------------------------ MODULE CodesGen ------------------------------
(* Every documented state code x placement x accounting switch x file state *)
(* x whether another target of the workflow / a foreign job carries another *)
(* state: scenarios for C08.                                                *)
EXTENDS SchedSem, TLC, Json

Scn(b, q, a, acct, files, other) ==
  [backend |-> b, q |-> q, a |-> a, acct |-> acct, files |-> files, other |-> other, batch |-> 0]

Slurm == {Scn("slurm", q, a, acct, f, o) :
            q \in DOMAIN SlurmShort \cup {None}, a \in DOMAIN SlurmLong \cup {None},
            acct \in BOOLEAN, f \in {"complete", "stale"}, o \in {"run", "fail"}}
SlurmSome == {s \in Slurm : (s.q = None \/ s.a \in {None, "COMPLETED", "FAILED", "RUNNING"})
                              /\ (s.files = "complete" \/ s.other = "run")}
Others(b, tbl) == {Scn(b, q, None, TRUE, f, o) : q \in DOMAIN tbl \cup {None}, f \in {"complete", "stale"}, o \in {"run", "fail"}}
Batches == {[Scn("slurm", None, a, TRUE, "complete", "fail") EXCEPT !.batch = k] : a \in {"FAILED", "RUNNING"}, k \in 1..3}

ASSUME \A s \in SlurmSome \cup Others("sge", SGE) \cup Others("lsf", LSF) \cup Others("local", Local) \cup Batches : PrintT(ToJson(s))
=============================================================================
