----------------------------- MODULE CodesTrace -----------------------------
(* C08: the state `gwf status` showed for a target whose own job is in a    *)
(* given scheduler state, judged against SchedSem.                          *)
EXTENDS SchedSem, TLC, Json, IOUtils
Batch == JsonDeserialize(IOEnv.TRACE_FILE)
VARIABLE i

Clauses(s, o) ==
  LET fb == IF s.files = "complete" THEN "completed" ELSE "shouldrun"
      ok == {Shown(c, fb) : c \in Allowed(s.backend, s.q, s.a, s.acct)}
      (* the other target of the workflow: its own job runs, or has failed *)
      oth == IF s.other = "run" THEN {"running"}
             ELSE IF s.backend \in {"lsf", "local"} \/ (s.backend = "slurm" /\ s.acct) THEN {"failed"} ELSE {"completed"} IN
  [ C08_class |-> o.exit = 0 /\ o.shown \in ok,
    (* the other target's job and a foreign job never leak into this target's state *)
    C08_own_job_only |-> o.exit = 0 /\ o.shown \in ok /\ o.other_shown \in oth,
    C08_no_sacct_when_disabled |-> (s.backend = "slurm" /\ ~s.acct) => ~o.sacct_called,
    C08_queue_wins |-> (s.backend = "slurm" /\ s.q # None /\ o.exit = 0) => o.shown \in {Shown(c, fb) : c \in SlurmShort[s.q]},
    C08_batches |-> s.batch > 0 => (o.exit = 0 /\ o.shown \in ok /\ o.sacct_calls = 3 /\ o.sacct_ids_asked = o.tracked_n) ]

Failed(r) == LET c == Clauses(r.scn, r.obs) IN {n \in DOMAIN c : ~c[n]}
Init == i \in 1..Len(Batch)
Next == UNCHANGED i
Verdict == LET f == Failed(Batch[i]) IN
           f = {} \/ PrintT(ToJson([id |-> Batch[i].id, failed |-> f]))
=============================================================================
