------------------------------- MODULE Config -------------------------------
(***************************************************************************)
(* gwf's project configuration (C20): a map from dotted keys to typed      *)
(* values stored in .gwfconf.json next to the workflow file, with built-in *)
(* defaults underneath; `gwf config set/unset/get`; how settings reach gwf *)
(* (flag over configuration over default) and the selected back end        *)
(* (the backend.<name>.* namespace, and only that).                        *)
(***************************************************************************)
EXTENDS Integers, Sequences, FiniteSets, TLC

(* raw command-line strings and what they are stored as: integers and the  *)
(* words yes/no/true/false are coerced, everything else is kept as text    *)
I(n) == [t |-> "int", v |-> n]
B(b) == [t |-> "bool", v |-> b]
Tx(s) == [t |-> "str", v |-> s]
Coerce ==
  [ r42 |-> I(42), rneg7 |-> I(-7), r007 |-> I(7), r0 |-> I(0),
    ryes |-> B(TRUE), rtrue |-> B(TRUE), rno |-> B(FALSE), rfalse |-> B(FALSE),
    rYes |-> Tx("Yes"), rTrue |-> Tx("True"), rFALSE |-> Tx("FALSE"),
    rempty |-> Tx(""), rhello |-> Tx("hello"), rspaces |-> Tx("hello big world"),
    rjson |-> Tx("{\"a\": 1}"), rinfo |-> Tx("info"), r4x |-> Tx("4x"), rfloat |-> Tx("1.5"), rmerged |-> Tx("merged"), rdebug |-> Tx("debug"),
    (* fragments and look-alikes of the four boolean words stay text *)
    rn |-> Tx("n"), ry |-> Tx("y"), rals |-> Tx("als"), rru |-> Tx("ru"), rnone |-> Tx("none"), ryesno |-> Tx("yesno") ]
Raws == DOMAIN Coerce

Defaults == [verbose |-> Tx("info"), clean_logs |-> B(TRUE), use_spec_hashes |-> B(FALSE)]
NotSet == [t |-> "unset", v |-> 0]

VARIABLE conf          \* the file: a function from a finite set of keys to typed values
Init == conf = << >>

Has(k) == k \in DOMAIN conf
Put(f, k, v) == [x \in DOMAIN f \cup {k} |-> IF x = k THEN v ELSE f[x]]
Drop(f, k)   == [x \in DOMAIN f \ {k} |-> f[x]]

Set(k, raw) == conf' = Put(conf, k, Coerce[raw])
Unset(k)    == conf' = Drop(conf, k)               \* harmless when k is not set
Effective(k) == IF Has(k) THEN conf[k] ELSE IF k \in DOMAIN Defaults THEN Defaults[k] ELSE NotSet
Get(k)      == UNCHANGED conf

(* what the selected back end receives: exactly the keys below "backend.<name>." *)
Prefix(name) == "backend." \o name \o "."
(* keys are modelled as <<namespace, rest>> pairs in the scenarios, see ConfigGen *)

(* precedence: an explicit flag wins over the configuration, which wins over the default *)
Pick(flag, cfg, default) == IF flag # "none" THEN flag ELSE IF cfg # "none" THEN cfg ELSE default
=============================================================================
