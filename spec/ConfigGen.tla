----------------------------- MODULE ConfigGen -----------------------------
EXTENDS Config, Json, Randomization
CONSTANTS MaxOps, Sample
GNext == UNCHANGED conf

Keys == {"a", "a.b", "a.bc", "verbose", "backend.slurm.log_mode", "backend.slurmx.y"}
Ops == {[op |-> "set", k |-> k, raw |-> r] : k \in Keys, r \in Raws}
       \cup {[op |-> "unset", k |-> k] : k \in Keys} \cup {[op |-> "get", k |-> k] : k \in Keys}
SeqsOf(n) == UNION {[1..m -> Ops] : m \in 1..n}
OpSeqs == IF Sample = 0 THEN SeqsOf(MaxOps) ELSE RandomSubset(Sample, [1..MaxOps -> Ops]) \cup SeqsOf(1)
ASSUME \A s \in OpSeqs : PrintT(ToJson([kind |-> "ops", ops |-> s]))
(* a key that has a built-in default: override it, then set it back to the default's value *)
BackToDefault == {<<[op |-> "set", k |-> "verbose", raw |-> r], [op |-> "set", k |-> "verbose", raw |-> "rinfo"], [op |-> "get", k |-> "verbose"]>> : r \in {"rdebug", "r42"}}
           \cup {<<[op |-> "set", k |-> "clean_logs", raw |-> "rno"], [op |-> "set", k |-> "clean_logs", raw |-> r], [op |-> "get", k |-> "clean_logs"]>> : r \in {"ryes", "rtrue"}}
           \cup {<<[op |-> "set", k |-> "use_spec_hashes", raw |-> "ryes"], [op |-> "set", k |-> "use_spec_hashes", raw |-> "rno"], [op |-> "get", k |-> "use_spec_hashes"]>>,
                 <<[op |-> "set", k |-> "clean_logs", raw |-> "r0"], [op |-> "get", k |-> "clean_logs"], [op |-> "unset", k |-> "clean_logs"]>>}
ASSUME \A s \in BackToDefault : PrintT(ToJson([kind |-> "ops", ops |-> s]))
(* a key that is also the dotted prefix of other keys: unsetting it - set or not, once or twice - concerns only itself *)
PrefixPairs == {<<"a", "a.b">>, <<"a", "a.bc">>, <<"backend", "backend.slurm.log_mode">>, <<"backend.slurm", "backend.slurm.log_mode">>}
PrefixFam == {<<[op |-> "set", k |-> pc[2], raw |-> "rmerged"], [op |-> "unset", k |-> pc[1]], [op |-> "get", k |-> pc[2]]>> : pc \in PrefixPairs}
        \cup {<<[op |-> "set", k |-> pc[2], raw |-> "r42"], [op |-> "set", k |-> pc[1], raw |-> "rhello"], [op |-> "unset", k |-> pc[1]],
                [op |-> "unset", k |-> pc[1]], [op |-> "get", k |-> pc[2]]>> : pc \in PrefixPairs}
ASSUME \A s \in PrefixFam : PrintT(ToJson([kind |-> "ops", ops |-> s]))

(* precedence and namespace scenarios *)
Opt == {"none", "slurm", "sge"}
ASSUME \A f \in Opt, c \in Opt : (f # "none" \/ c # "none") =>
          PrintT(ToJson([kind |-> "backend", flag |-> f, cfg |-> c]))
Lvl == {"none", "debug", "warning"}
ASSUME \A f \in Lvl, c \in Lvl : PrintT(ToJson([kind |-> "verbose", flag |-> f, cfg |-> c]))
Col == {"none", "on", "off"}      \* on = colours, off = no colours
ASSUME \A f \in Col, c \in Col, e \in {"none", "off"} : PrintT(ToJson([kind |-> "colour", flag |-> f, cfg |-> c, env |-> e]))
ASSUME \A lm \in {"none", "full", "merged", "nolog"}, acct \in {"none", "on", "off"}, foreign \in BOOLEAN, sel \in {"slurm", "sge"} :
          PrintT(ToJson([kind |-> "namespace", log_mode |-> lm, acct |-> acct, foreign |-> foreign, selected |-> sel]))
ASSUME \A p \in {"none", "cfg"}, h \in {"none", "cfg"} : PrintT(ToJson([kind |-> "local", port |-> p, host |-> h]))
(* a directory without a workflow: gwf offers to create a project there and asks for the back end *)
ASSUME \A a \in {"y", "n", "eof"}, c \in {"default", "slurm", "sge", "lsf", "local"}, w \in {"root", "nested"} :
          (a = "y" \/ c = "default") => PrintT(ToJson([kind |-> "init", answer |-> a, choice |-> c, where |-> w]))
=============================================================================
