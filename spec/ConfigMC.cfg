SPECIFICATION Spec
INVARIANT CoerceTyped
PROPERTY P_Set
PROPERTY P_Unset
CHECK_DEADLOCK FALSE
CONSTANTS
 Keys = {"a", "a.b", "verbose", "backend.slurm.log_mode"}
 RawSet = {"r42", "ryes", "rno", "rYes", "rempty", "rhello"}
