------------------------------ MODULE ConfigMC ------------------------------
(* Design check of Config: round trip, only the named key changes, unset is *)
(* harmless and idempotent - on every reachable file content.               *)
EXTENDS Config
CONSTANTS Keys, RawSet
vars == <<conf>>
Next == \E k \in Keys : Unset(k) \/ \E r \in RawSet : Set(k, r)
Spec == Init /\ [][Next]_vars
A_Set   == \A k \in Keys, r \in RawSet : Set(k, r) =>
             /\ conf'[k] = Coerce[r]
             /\ \A k2 \in DOMAIN conf' : k2 # k => (k2 \in DOMAIN conf /\ conf'[k2] = conf[k2])
A_Unset == \A k \in Keys : Unset(k) =>
             /\ k \notin DOMAIN conf'
             /\ \A k2 \in DOMAIN conf : k2 # k => (k2 \in DOMAIN conf' /\ conf'[k2] = conf[k2])
             /\ (k \notin DOMAIN conf => conf' = conf)
P_Set == [][A_Set]_vars
P_Unset == [][A_Unset]_vars
CoerceTyped == \A r \in Raws : Coerce[r].t \in {"int", "bool", "str"}
=============================================================================
