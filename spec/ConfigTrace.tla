---------------------------- MODULE ConfigTrace ----------------------------
(* C20: recorded `gwf config` histories and settings-in-effect observations, *)
(* judged against Config.                                                    *)
EXTENDS Config, Json, IOUtils
Batch == JsonDeserialize(IOEnv.TRACE_FILE)
VARIABLES tid, l, bad
tvars == <<conf, tid, l, bad>>

Steps == Batch[tid].steps
St == Steps[l]
(* the file content as observed: JSON object key -> [t, v] *)
FileEq(o, f) == DOMAIN o = DOMAIN f /\ \A k \in DOMAIN f : o[k].t = f[k].t /\ o[k].v = f[k].v
Render(x) == CASE x.t = "int" -> ToString(x.v) [] x.t = "bool" -> (IF x.v THEN "True" ELSE "False")
               [] x.t = "str" -> x.v [] OTHER -> "<not set>"

Judge(cl) == /\ bad' = {c[1] : c \in {x \in cl : ~x[2]}} /\ l' = l + 1 /\ tid' = tid

OpsStep ==
  /\ Batch[tid].scn.kind = "ops"
  /\ \/ /\ St.op = "set" /\ Set(St.k, St.raw)
        /\ Judge({<<"C20_roundtrip", St.exit = 0 /\ St.k \in DOMAIN St.file /\ St.file[St.k].t = Coerce[St.raw].t /\ St.file[St.k].v = Coerce[St.raw].v>>,
                  <<"C20_others_untouched", FileEq(St.file, conf')>>,
                  <<"C20_location", St.at_root /\ ~St.stray_file>>})
     \/ /\ St.op = "unset" /\ Unset(St.k)
        /\ Judge({<<"C20_unset_harmless", St.exit = 0>>,
                  <<"C20_unset_only", FileEq(St.file, conf')>>,
                  <<"C20_location", ~St.stray_file>>})
     \/ /\ St.op = "get" /\ Get(St.k)
        /\ Judge({<<"C20_roundtrip", St.exit = 0 /\ St.out = Render(Effective(St.k))>>,
                  <<"C20_others_untouched", FileEq(St.file, conf)>>})

(* single-step scenarios: settings in effect *)
S == Batch[tid].scn
O == Batch[tid].obs
EffClauses ==
  CASE S.kind = "backend" ->
         {<<"C20_precedence", O.exit = 0 /\ O.backend_used = Pick(S.flag, S.cfg, "guess")>>}
    [] S.kind = "verbose" ->
         {<<"C20_precedence", O.exit = 0 /\ O.level_seen = Pick(S.flag, S.cfg, "info")>>}
    [] S.kind = "colour" ->
         {<<"C20_precedence", O.exit = 0 /\ O.colours = (Pick(S.flag, S.cfg, IF S.env = "off" THEN "off" ELSE "on") = "on")>>}
    [] S.kind = "namespace" ->
         {<<"C20_namespace", /\ O.exit = 0
                             /\ S.selected = "slurm" =>
                                  /\ O.log_directives = (CASE S.log_mode \in {"none", "full"} -> "full" [] S.log_mode = "merged" -> "merged" [] OTHER -> "nolog")
                                  /\ O.sacct_called = (S.acct # "off")
                             /\ S.selected = "sge" => O.log_directives = "sge" /\ ~O.sacct_called>>}
    [] S.kind = "init" ->
         (* declined: nothing is created; accepted: the configuration file is created next to the new workflow *)
         (* file, holds exactly the chosen back end, and that is what a later `config get` returns             *)
         {<<"C20_init_declined_noop", S.answer # "y" => O.created = << >> /\ O.exit # 0>>,
          <<"C20_location", S.answer = "y" => O.workflow_here /\ O.conf_here /\ ~O.stray_file>>,
          <<"C20_roundtrip", S.answer = "y" =>
               LET b == IF S.choice = "default" THEN O.guess ELSE S.choice IN
               /\ b \in {"slurm", "sge", "lsf", "local"}
               /\ FileEq(O.file, [k \in {"backend"} |-> Tx(b)])
               /\ O.got = b>>}
    [] S.kind = "local" ->
         {<<"C20_namespace", O.dialled = [port |-> IF S.port = "cfg" THEN "cfg" ELSE "default", host |-> IF S.host = "cfg" THEN "cfg" ELSE "default"]>>}
EffStep == S.kind # "ops" /\ UNCHANGED conf /\ Judge(EffClauses)

TraceInit == Init /\ tid \in 1..Len(Batch) /\ l = 1 /\ bad = {}
TraceNext == bad = {} /\ ((S.kind = "ops" /\ l <= Len(Steps) /\ OpsStep) \/ (S.kind # "ops" /\ l = 1 /\ EffStep))
TraceSpec == TraceInit /\ [][TraceNext]_tvars
Done == bad # {} \/ (S.kind = "ops" /\ l > Len(Steps)) \/ (S.kind # "ops" /\ l > 1)
Verdict == ~Done \/ PrintT(ToJson([id |-> Batch[tid].id, failed |-> bad, step |-> l - 1]))
=============================================================================
