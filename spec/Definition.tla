----------------------------- MODULE Definition -----------------------------
(***************************************************************************)
(* From what the user writes to the workflow of GwfDefs (C03, C19):        *)
(*  - a path spelling is [abs, comps]: absolute or relative, a sequence of *)
(*    components among names, "." and "..";                                *)
(*  - Norm(wd, p): the spelling resolved against the working directory wd  *)
(*    (a sequence of names) and normalised - an independent transcription  *)
(*    of "resolved against the working directory and normalised";          *)
(*  - EffWd: which directory a target's relative paths are resolved        *)
(*    against, for targets made directly, from a template, or by map;      *)
(*  - ValidName / ValidPath on character / value classes;                  *)
(*  - MapNames: the names map() must give its targets.                     *)
(***************************************************************************)
EXTENDS GwfDefs, TLC

RECURSIVE Collapse(_, _)
(* stack machine for "." and "..": acc is the stack of names so far *)
Collapse(acc, rest) ==
  IF rest = << >> THEN acc
  ELSE LET c == Head(rest) IN
       IF c = "." \/ c = "" THEN Collapse(acc, Tail(rest))        \* "." and the empty component of "a//b", "a/"
       ELSE IF c = ".." THEN Collapse(IF acc = << >> THEN acc ELSE SubSeq(acc, 1, Len(acc) - 1), Tail(rest))
       ELSE Collapse(Append(acc, c), Tail(rest))

Norm(wd, p) == Collapse(<< >>, IF p.abs THEN p.comps ELSE wd \o p.comps)

RECURSIVE PathStr(_)
PathStr(cs) == IF cs = << >> THEN "" ELSE "/" \o Head(cs) \o PathStr(Tail(cs))
Str(cs) == IF cs = << >> THEN "/" ELSE PathStr(cs)

(* A declaration: [name, wd, ins, outs] with ins/outs sets of spellings and wd itself a    *)
(* spelling: a relative working directory is resolved against the directory the process   *)
(* runs in (Cwd).  The induced workflow identifies files by the string of their normal form *)
Cwd == <<"P">>
ActualWd(wd) == Norm(Cwd, wd)
Induced(decls) ==
  LET T == {d.name : d \in decls}
      D(t) == CHOOSE d \in decls : d.name = t IN
  [T |-> T,
   in  |-> [t \in T |-> {Str(Norm(ActualWd(D(t).wd), p)) : p \in D(t).ins}],
   out |-> [t \in T |-> {Str(Norm(ActualWd(D(t).wd), p)) : p \in D(t).outs}]]

(* C19: the directory relative paths are resolved against.                 *)
(*   explicit  - working directory given for the target/template ("none"   *)
(*               when not given)                                           *)
(*   wfdir     - the workflow's working directory: the explicitly given    *)
(*               one, else the directory of the file that created it       *)
(* The directory gwf is invoked from never matters.                        *)
EffWd(explicit, wfdir) == IF explicit = "none" THEN wfdir ELSE explicit

---------------------------------------------------------------------------
(* names and path values, on classes *)
NameClasses == {"Letter", "Digit", "Underscore", "Dot", "Newline", "Space", "Dash", "UnicodeLetter", "Other"}
ValidName(cs) ==
  /\ Len(cs) > 0
  /\ cs[1] \in {"Letter", "Underscore"}
  /\ \A k \in 2..Len(cs) : cs[k] \in {"Letter", "Digit", "Underscore", "Dot"}

PathKinds == {"Str", "PathLike", "Unicode", "Empty", "StrWithTab", "StrWithNewline", "StrWithEsc", "StrWithNul", "StrWithDel",
              "StrWithC1", "PathLikeWithC1", "Int", "None"}
ValidPath(k) == k \in {"Str", "PathLike", "Unicode"}

(* map(): one target per item; names template_<i> / <string>_<i> / f(i)    *)
MapNames(mode, base, cnt) == [i \in 1..cnt |-> IF mode = "func" THEN "custom" \o ToString(i - 1)
                                             ELSE base \o "_" \o ToString(i - 1)]

(* The workflow as a registry of names.  A definition operation brings a sequence of names  *)
(* (one for target()/target_from_template(), one per item for map()); it is accepted iff the *)
(* names are pairwise distinct and none is registered yet, and then registers exactly them.  *)
(* A rejected operation raises when the target is defined; what a rejected map() has already *)
(* registered is not specified, so a scenario is judged up to its first rejection.           *)
Distinct(ns)      == \A a, b \in DOMAIN ns : a # b => ns[a] # ns[b]
RECURSIVE RegAfter(_, _)
RegAfter(ops, k)  == IF k = 0 THEN {} ELSE RegAfter(ops, k - 1) \cup {ops[k].names[j] : j \in DOMAIN ops[k].names}
OpAccepted(ops, k) == Distinct(ops[k].names) /\ {ops[k].names[j] : j \in DOMAIN ops[k].names} \cap RegAfter(ops, k - 1) = {}
FirstRejected(ops) == LET R == {k \in DOMAIN ops : ~OpAccepted(ops, k)} IN
                      IF R = {} THEN Len(ops) + 1 ELSE CHOOSE k \in R : \A m \in R : k <= m
=============================================================================
