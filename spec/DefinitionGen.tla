--------------------------- MODULE DefinitionGen ---------------------------
(* Scenario generator for C03: declarations with inputs/outputs drawn from a *)
(* pool of spellings of a few files in two directories.                      *)
EXTENDS Definition, Json, Randomization
CONSTANTS ND, Sample, MaxIO, Part

WdP  == <<"P">>
WdPs == <<"P", "s">>
Rel(cs) == [abs |-> FALSE, comps |-> cs]
Abs(cs) == [abs |-> TRUE, comps |-> cs]
(* spellings of P/x, P/s/x, P/xx, P/y and look-alikes (u1/u2: the same text in NFC and NFD, X: another case) *)
Pool == { Rel(<<"x">>), Rel(<<".", "x">>), Rel(<<"s", "..", "x">>), Rel(<<"..", "x">>), Rel(<<"s", "x">>),
          Rel(<<"xx">>), Rel(<<"y">>), Rel(<<"..", "s", "x">>), Rel(<<"u1">>), Rel(<<"u2">>), Rel(<<"X">>),
          Rel(<<"s", "", "x">>), Rel(<<"x", "">>), Abs(<<"P", "", "s", "x">>),
          Rel(<<"x", "y">>), Rel(<<"s", "x", "deep", "y">>),     \* files *inside* what is elsewhere a declared path: other files     \* "s//x", "x/", "/P//s/x"
          Abs(<<"P", "x">>), Abs(<<"P", ".", "x">>), Abs(<<"P", "s", "..", "x">>), Abs(<<"P", "s", "x">>),
          Abs(<<"P", "s", ".", "..", "y">>) }
Small(S) == {x \in SUBSET S : Cardinality(x) <= MaxIO}
Names == <<"A", "B", "C">>
(* working directories: absolute, or relative to the directory the process runs in (P) *)
Wds == {Abs(WdP), Abs(WdPs), Abs(<<"P", "s", ".", "..", "s">>), Rel(<<"s">>), Rel(<<".">>), Rel(<<"s", "..">>)}
Universe == [1..ND -> [wd : Wds, ins : Small(Pool), outs : Small(Pool)]]
Chosen == IF Sample = 0 THEN Universe ELSE RandomSubset(Sample, Universe)
Scn(u) == [kind |-> "graph", decls |-> [i \in 1..ND |-> [name |-> Names[i], wd |-> u[i].wd, ins |-> u[i].ins, outs |-> u[i].outs]]]
ASSUME Part = "graph" => \A u \in Chosen : PrintT(ToJson(Scn(u)))
(* a file *inside* a path another target declares as output is another file: no edge, whatever exists on disk *)
NestedFam == {[kind |-> "graph", decls |-> << [name |-> "A", wd |-> w1, ins |-> {}, outs |-> {o}],
                                             [name |-> "B", wd |-> w2, ins |-> {i}, outs |-> {Rel(<<"y">>)}] >>] :
                w1 \in Wds, w2 \in Wds, o \in {Rel(<<"x">>), Rel(<<"s", "x">>), Abs(<<"P", "x">>)},
                i \in {Rel(<<"x", "y">>), Rel(<<"s", "x", "deep", "y">>), Abs(<<"P", "x", "y">>)}}
ASSUME Part = "graph" => \A x \in NestedFam : PrintT(ToJson(x))

---------------------------------------------------------------------------
(* C19 scenarios *)
(* working directories: abstract directories "P" (where the workflow file is), "W" (given  *)
(* to Workflow(working_dir=...)), "E" (given to the template); loc = where relative paths  *)
(* of the target must land                                                                *)
WfDir(wfmode) == IF wfmode = "explicit" THEN "W" ELSE "P"
TargetKinds == {[mode |-> "target", explicit |-> "none"], [mode |-> "template", explicit |-> "none"],
                [mode |-> "template", explicit |-> "E"], [mode |-> "map", explicit |-> "none"],
                [mode |-> "map", explicit |-> "E"]}
WdScn(wfmode, tk) == [kind |-> "wd", wfmode |-> wfmode, wfdir |-> WfDir(wfmode),
                      targets |-> [k \in DOMAIN tk |-> [mode |-> tk[k].mode, explicit |-> tk[k].explicit,
                                                         loc |-> EffWd(tk[k].explicit, WfDir(wfmode))]]]
WdScns == {WdScn(m, tk) : m \in {"inherit", "explicit"}, tk \in [1..2 -> TargetKinds]}

Seqs(n) == UNION {[1..k -> NameClasses] : k \in 0..n}
NameScns == {[kind |-> "name", classes |-> cs] : cs \in Seqs(3)}
PathScns == {[kind |-> "path", pathkind |-> k, where |-> wh] : k \in PathKinds, wh \in {"inputs", "outputs", "nested"}}
MapScns  == {[kind |-> "map", mode |-> m, base |-> (CASE m = "template" -> "tmpl" [] m = "classinst" -> "Tmpl" [] m = "string" -> "foo" [] OTHER -> ""),
              cnt |-> c, shape |-> sh] : m \in {"template", "classinst", "string", "func"}, c \in 0..3,
                                        sh \in {"str", "tuple", "dict", "dict_extra"}}
(* sequences of definition operations on one workflow, names from a pool of three *)
NPool   == {"n1", "n2", "n3"}
NSeqs(n) == UNION {[1..k -> NPool] : k \in 0..n}
DefOps  == {[op |-> o, names |-> <<n>>] : o \in {"target", "template"}, n \in NPool}
           \cup {[op |-> "map", names |-> ns] : ns \in NSeqs(3)}
DefSeqs == UNION {[1..k -> DefOps] : k \in 1..2} \cup RandomSubset(3000, [1..3 -> DefOps])
ASSUME Part = "misc" => \A x \in WdScns \cup NameScns \cup PathScns \cup MapScns : PrintT(ToJson(x))
ASSUME Part = "misc" => \A ops \in DefSeqs : PrintT(ToJson([kind |-> "defseq", ops |-> ops]))
=============================================================================
