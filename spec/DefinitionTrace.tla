-------------------------- MODULE DefinitionTrace --------------------------
(* C03 / C19: what the real workflow definition layer and graph construction *)
(* produced, judged against Definition and GwfDefs.                          *)
EXTENDS Definition, Json, IOUtils
Batch == JsonDeserialize(IOEnv.TRACE_FILE)
VARIABLE i
S(x) == {x[k] : k \in DOMAIN x}

Decls(s) == {[name |-> s.decls[k].name, wd |-> s.decls[k].wd, ins |-> S(s.decls[k].ins), outs |-> S(s.decls[k].outs)] : k \in DOMAIN s.decls}
NoFs(w) == [f \in AllIn(w) \cup AllOut(w) |-> 0]     \* every file exists: "unresolved" never applies
FsOf(s, w) == IF "fsmode" \in DOMAIN s /\ s.fsmode = "none"
              THEN [f \in AllIn(w) \cup AllOut(w) |-> -1]  \* a fresh project: nothing exists, an unprovided input is unresolved
              ELSE NoFs(w)

GraphClauses(s, o) ==
  LET w == Induced(Decls(s))  err == Errors(w, FsOf(s, w)) IN
  [ C04_accept |-> o.built <=> err = {},
    C04_kind   |-> ~o.built => o.kind \in err,
    C03_deps   |-> o.built => \A t \in w.T : S(o.deps[t]) = Deps(w, t),
    C03_inverse |-> o.built => \A t \in w.T : S(o.dependents[t]) = Dependents(w, t),
    C03_endpoints |-> o.built => S(o.endpoints) = Endpoints(w),
    C03_provides |-> o.built => /\ DOMAIN o.provides = AllOut(w)
                                /\ \A f \in AllOut(w) : {o.provides[f]} = Producers(w, f),
    C03_unresolved |-> o.built => S(o.unresolved) = Unresolved(w),
    C03_info   |-> (o.built /\ o.has_info) => \A t \in w.T : S(o.info_deps[t]) = Deps(w, t) /\ S(o.info_dependents[t]) = Dependents(w, t) ]

(* C19 working directories: the state shown for a target whose files exist exactly at the *)
(* location the specification resolves them to, from every invoking directory *)
WdClauses(s, o) ==
  (* the driver put every target's files where EffWd says (s.targets[k].loc, computed by the *)
  (* generator): from every invoking directory each target must then be shown completed,    *)
  (* the dependency t2 -> t1 must be seen, and the state directory must be next to the file *)
  [ C19_same_graph |-> \A k \in DOMAIN o.runs :
        /\ o.runs[k].exit = 0
        /\ \A n \in DOMAIN o.runs[k].status : o.runs[k].status[n] = "completed"
        /\ o.runs[k].ntargets = Len(s.targets)
        /\ o.runs[k].dep_seen,
    C19_state_dir |-> \A k \in DOMAIN o.runs : o.runs[k].gwfdir_ok,
    (* Workflow.glob / iglob / shell work in the workflow's working directory, whatever the invoking directory *)
    C19_helpers_in_wfdir |-> \A k \in DOMAIN o.runs : o.runs[k].helpers_at = s.wfdir,
    C19_effwd |-> \A k \in DOMAIN s.targets : s.targets[k].loc = EffWd(s.targets[k].explicit, s.wfdir) ]

NameClauses(s, o) == [ C19_name_accept |-> o.accepted <=> ValidName(s.classes) ]
PathClauses(s, o) == [ C19_path_accept |-> o.accepted <=> ValidPath(s.pathkind) ]
MapClauses(s, o)  ==
  [ C19_map_names |-> /\ Len(o.names) = s.cnt
                      /\ \A k \in 1..s.cnt : o.names[k] = MapNames(s.mode, s.base, s.cnt)[k],
    C19_unique_names |-> o.dup_rejected ]

(* o.acc[k]: operation k returned normally (the driver stops after the first one that raised) *)
DefSeqClauses(s, o) ==
  LET ops == s.ops  fr == FirstRejected(ops)  n == IF fr <= Len(ops) THEN fr ELSE Len(ops) IN
  [ C19_unique_names |-> /\ Len(o.acc) = n
                         /\ \A k \in 1..n : o.acc[k] = (k < fr)
                         /\ o.errkind \in {"", "WorkflowError"},
    C19_map_names    |-> fr > Len(ops) =>
                            /\ S(o.registered) = RegAfter(ops, Len(ops)) /\ Len(o.registered) = Cardinality(RegAfter(ops, Len(ops)))
                            /\ \A k \in DOMAIN ops : o.results[k] = ops[k].names ]

Clauses(s, o) == CASE s.kind = "graph" -> GraphClauses(s, o) [] s.kind = "wd" -> WdClauses(s, o)
                   [] s.kind = "name" -> NameClauses(s, o) [] s.kind = "path" -> PathClauses(s, o)
                   [] s.kind = "map" -> MapClauses(s, o) [] s.kind = "defseq" -> DefSeqClauses(s, o)
Failed(r) == LET c == Clauses(r.scn, r.obs) IN {n \in DOMAIN c : ~c[n]}
Init == i \in 1..Len(Batch)
Next == UNCHANGED i
Verdict == LET f == Failed(Batch[i]) IN
           f = {} \/ PrintT(ToJson([id |-> Batch[i].id, failed |-> f]))
=============================================================================
