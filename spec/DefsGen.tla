------------------------------ MODULE DefsGen ------------------------------
(***************************************************************************)
(* Scenario generator for the pure part of the specification (C01, C02,    *)
(* C05): TLC enumerates (Sample = 0) or samples (Sample = k, seeded with   *)
(* -seed) project states - a well-formed workflow, a file system, a        *)
(* backend snapshot, spec-hash records and a requested target set - and    *)
(* prints each as JSON for the driver.                                     *)
(***************************************************************************)
EXTENDS GwfDefs, TLC, Json, Randomization

CONSTANTS NT,       \* number of targets (1..4)
          NF,       \* number of files   (1..5)
          MaxT,     \* mtimes range over Missing..MaxT
          BSet,     \* backend states to draw from
          HashOn,   \* spec hashing enabled?
          MaxIO,    \* at most this many inputs per target
          SelAll,   \* TRUE: every requested set; FALSE: only "none given"
          Sample    \* 0 = exhaustive, k > 0 = RandomSubset(k, ...)

TNames == <<"A", "B", "C", "D">>
FNames == <<"f1", "f2", "f3", "f4", "f5">>
T == {TNames[i] : i \in 1..NT}
F == {FNames[i] : i \in 1..NF}
Small(S) == {x \in SUBSET S : Cardinality(x) <= MaxIO}
HSet == IF HashOn THEN {"same", "changed", "none"} ELSE {"same"}

(* prod[f] is the producer of f ("-" for a source file): single producers  *)
(* by construction, so most of the universe is well-formed.                *)
Universe == [prod : [F -> T \cup {"-"}], in : [T -> Small(F)], fs : [F -> Missing..MaxT],
             b : [T -> BSet], hrec : [T -> HSet], sel : IF SelAll THEN SUBSET T ELSE {{}}]

Wf(u) == [T |-> T, in |-> u.in, out |-> [t \in T |-> {f \in F : u.prod[f] = t}]]

Scn(u) == [T |-> T, in |-> u.in, out |-> Wf(u).out, fs |-> u.fs, b |-> u.b,
           hash |-> HashOn, hrec |-> u.hrec, sel |-> u.sel]

Chosen == IF Sample = 0 THEN Universe ELSE RandomSubset(Sample, Universe)

ASSUME \A u \in Chosen : WellFormed(Wf(u), u.fs) => PrintT(ToJson(Scn(u)))
=============================================================================
