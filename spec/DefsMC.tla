------------------------------- MODULE DefsMC -------------------------------
(***************************************************************************)
(* Design check of GwfDefs: the lemmas the other checks lean on, evaluated *)
(* by TLC on every small project state, and - as action properties - on    *)
(* every single perturbation of it (a file is modified, a file is deleted, *)
(* a job changes state).                                                   *)
(***************************************************************************)
EXTENDS GwfDefs, TLC

CONSTANTS NT, NF, MaxT, BSet, HashOn, MaxIO

TNames == <<"A", "B", "C", "D">>
FNames == <<"f1", "f2", "f3", "f4", "f5">>
T == {TNames[i] : i \in 1..NT}
F == {FNames[i] : i \in 1..NF}
Small(S) == {x \in SUBSET S : Cardinality(x) <= MaxIO}
HSet == IF HashOn THEN {TRUE, FALSE} ELSE {TRUE}

(* phase 0: only the workflow is chosen (TLC computes initial states and   *)
(* their invariants in one thread, so the expensive part is moved into the *)
(* Pick step, which the workers share); phase 1: a complete project state; *)
(* phase 2: the same after one perturbation.                               *)
VARIABLES w, fs, b, hok, phase
vars == <<w, fs, b, hok, phase>>

Init == \E prod \in [F -> T \cup {"-"}], in \in [T -> Small(F)] :
          /\ w = [T |-> T, in |-> in, out |-> [t \in T |-> {f \in F : prod[f] = t}]]
          /\ Acyclic(w)
          /\ fs = [f \in F |-> 0] /\ b = [t \in T |-> "U"] /\ hok = [t \in T |-> TRUE]
          /\ phase = 0

Pick == /\ phase = 0 /\ phase' = 1 /\ w' = w
        /\ fs' \in [F -> Missing..MaxT]
        /\ b' \in [T -> BSet]
        /\ hok' \in [T -> HSet]
        /\ WellFormed(w, fs')

Now == Max({fs[f] : f \in F}) + 1

Modify(f)  == /\ phase = 1 /\ phase' = 2 /\ fs[f] # Missing
              /\ fs' = [fs EXCEPT ![f] = Now] /\ UNCHANGED <<w, b, hok>>
Delete(f)  == /\ phase = 1 /\ phase' = 2 /\ fs[f] # Missing /\ f \notin Unresolved(w)
              /\ fs' = [fs EXCEPT ![f] = Missing] /\ UNCHANGED <<w, b, hok>>
JobTo(t,s) == /\ phase = 1 /\ phase' = 2 /\ b[t] # s
              /\ b' = [b EXCEPT ![t] = s] /\ UNCHANGED <<w, fs, hok>>

Next == \/ Pick
        \/ \E f \in F : Modify(f) \/ Delete(f)
        \/ \E t \in T, s \in BSet : JobTo(t, s)

SM  == StatusMap(w, fs, hok, b)
SM2 == StatusMap(w, fs', hok, b')

---------------------------------------------------------------------------
(* state lemmas *)

(* the status of a target depends on its cone only: `status` over the     *)
(* whole workflow and `run` over a sub-cone use the same table (C05)      *)
L_ConeOnly == phase = 1 => \A sel \in SUBSET T :
    LET c == Cone(w, sel) w2 == SubWf(w, c)
        sm2 == StatusMap(w2, fs, [t \in c |-> hok[t]], [t \in c |-> b[t]])
    IN \A t \in c : sm2[t] = SM[t]

(* a prerequisite is either submitted in the same run or has a live job   *)
L_PrereqCovered == phase = 1 => \A sel \in SUBSET T : \A t \in ToSubmit(w, fs, hok, b, sel) :
    Prereq(w, fs, hok, b, t) \subseteq ToSubmit(w, fs, hok, b, sel) \cup {d \in T : b[d] \in Live}

(* staleness propagates to everything downstream that is not in flight    *)
L_UpClosed == phase = 1 => \A t \in T, d \in T :
    (d \in Deps(w, t) /\ SM[d] # "completed" /\ b[t] \notin Live) => SM[t] \in Resubmit

(* a target shown completed has all its outputs, at least one, and none   *)
(* older than an input                                                     *)
L_CompletedSound == phase = 1 => \A t \in T : SM[t] = "completed" =>
    /\ w.out[t] # {} /\ \A f \in w.out[t] : fs[f] # Missing
    /\ \A f \in w.in[t] : fs[f] # Missing /\ \A o \in w.out[t] : fs[f] <= fs[o]
    /\ hok[t]

L_PlanMonotone == phase = 1 => \A s1 \in SUBSET T, s2 \in SUBSET T :
    s1 \subseteq s2 => ToSubmit(w, fs, hok, b, s1) \subseteq ToSubmit(w, fs, hok, b, s2)

(* in-flight targets are never planned *)
L_LiveNeverPlanned == phase = 1 => \A t \in T : b[t] \in Live => t \notin ToSubmit(w, fs, hok, b, T)

---------------------------------------------------------------------------
(* perturbation lemmas (action properties) - C06's "exactly the affected" *)

Quiet   == \A t \in T : b[t] \in {"U", "C"}
AllDone == \A t \in T : w.out[t] # {} => SM[t] = "completed"
NoOut   == {t \in T : w.out[t] = {}}
Down(S) == S \cup UNION {TransDependents(w, t) : t \in S}
(* targets forced to run only because a no-output dependency always runs  *)
AlwaysRun == Down(NoOut)

A_ModifySource == \A f \in F :
   (Quiet /\ AllDone /\ Modify(f) /\ f \in Unresolved(w)) =>
      {t \in T : SM2[t] = "shouldrun"} = Down({t \in T : f \in w.in[t]}) \cup AlwaysRun

A_DeleteOutput == \A f \in F :
   (Quiet /\ AllDone /\ Delete(f)) =>
      {t \in T : SM2[t] = "shouldrun"} = Down(Producers(w, f)) \cup AlwaysRun

(* modifying an input can only make more targets stale; never fewer       *)
A_ModifyInputMonotone == \A f \in F :
   (Modify(f) /\ f \notin AllOut(w)) =>
      \A t \in T : SM[t] = "shouldrun" => SM2[t] = "shouldrun"

(* a job changing state changes the table only for it and downstream      *)
A_JobLocal == \A t \in T, s \in BSet :
   JobTo(t, s) => \A u \in T : u \notin Down({t}) => SM2[u] = SM[u]

P_ModifySource == [][A_ModifySource]_vars
P_DeleteOutput == [][A_DeleteOutput]_vars
P_ModifyInputMonotone == [][A_ModifyInputMonotone]_vars
P_JobLocal == [][A_JobLocal]_vars
=============================================================================
