INIT Init
NEXT Next
INVARIANT L_ConeOnly
INVARIANT L_PrereqCovered
INVARIANT L_UpClosed
INVARIANT L_CompletedSound
INVARIANT L_PlanMonotone
INVARIANT L_LiveNeverPlanned
PROPERTY P_ModifySource
PROPERTY P_DeleteOutput
PROPERTY P_ModifyInputMonotone
PROPERTY P_JobLocal
CHECK_DEADLOCK FALSE
