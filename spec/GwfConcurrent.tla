--------------------------- MODULE GwfConcurrent ---------------------------
(***************************************************************************)
(* Two gwf invocations on one project at the same time.  Assumption A4 of  *)
(* DESIGN.md ("one gwf invocation at a time per project") is what every    *)
(* history check relies on; this module says what gwf does without it, at  *)
(* the grain of the real code:                                             *)
(*                                                                         *)
(*   Begin(p)     TrackingBackend is created: the tracked-jobs file is     *)
(*                read into the process (mtrk), the scheduler is queried   *)
(*                once, the plan is frozen from that snapshot              *)
(*   Submit(p,t)  one submission command; the returned id goes into mtrk   *)
(*                and the WHOLE in-memory map replaces the file            *)
(*   End(p)       close(): the whole map replaces the file once more       *)
(*                                                                         *)
(* Nothing is locked and nothing is merged.  TLC shows (negative results,  *)
(* expected to be violated, each checked by the harness as "must fail"):   *)
(*   NoDuplicateLive   both invocations plan and submit the same target    *)
(*   LiveJobsTracked   lost update: the second writer's map does not       *)
(*                     contain the first writer's new id                   *)
(* and (positive) that with Serial = TRUE, i.e. under A4, both hold.  The  *)
(* conformance part replays TLC's counterexample schedule against two real *)
(* gwf processes (the simulated sbatch blocks on a barrier the driver      *)
(* controls) and validates the recorded trace with ConcurrentTrace below:  *)
(* the real code must do exactly what this model says, step by step.       *)
(***************************************************************************)
EXTENDS Integers, Sequences, FiniteSets, TLC

CONSTANTS Targets,      \* independent targets without files: every run wants to submit each of them
          Procs,        \* invocations
          Sel,          \* [Procs -> SUBSET Targets]: what each invocation was asked to run
          Serial        \* TRUE: assumption A4 (an invocation begins only when no other one is running)

VARIABLES file,         \* [Targets -> id | 0]   the tracked-jobs file
          jobs,         \* Seq of target: the scheduler's job table (every job stays pending), id = index
          pc,           \* [Procs -> {"idle", "run", "done"}]
          mtrk,         \* [Procs -> [Targets -> id | 0]]   in-memory tracked map
          todo          \* [Procs -> SUBSET Targets]        frozen plan, not yet submitted

vars == <<file, jobs, pc, mtrk, todo>>

(* selections used by the configurations (a cfg file cannot write a function) *)
SelBoth    == [p \in Procs |-> Targets]
SelSplit   == [p \in Procs |-> IF p = "p1" THEN {"A"} ELSE {"B"}]
SelOverlap == [p \in Procs |-> IF p = "p1" THEN {"A", "B"} ELSE {"B"}]

Init == /\ file = [t \in Targets |-> 0]
        /\ jobs = << >>
        /\ pc = [p \in Procs |-> "idle"]
        /\ mtrk = [p \in Procs |-> [t \in Targets |-> 0]]
        /\ todo = [p \in Procs |-> {}]

(* a target is planned iff the process sees no live job for it: the tracked id it read, if any, names a pending job *)
Begin(p) ==
  /\ pc[p] = "idle"
  /\ Serial => \A q \in Procs : pc[q] # "run"
  /\ pc' = [pc EXCEPT ![p] = "run"]
  /\ mtrk' = [mtrk EXCEPT ![p] = file]
  /\ todo' = [todo EXCEPT ![p] = {t \in Sel[p] : file[t] = 0}]
  /\ UNCHANGED <<file, jobs>>

Submit(p, t) ==
  /\ pc[p] = "run" /\ t \in todo[p]
  /\ jobs' = Append(jobs, t)
  /\ mtrk' = [mtrk EXCEPT ![p][t] = Len(jobs) + 1]
  /\ file' = mtrk'[p]                      \* the whole map replaces the file
  /\ todo' = [todo EXCEPT ![p] = @ \ {t}]
  /\ UNCHANGED pc

End(p) ==
  /\ pc[p] = "run" /\ todo[p] = {}
  /\ file' = mtrk[p]
  /\ pc' = [pc EXCEPT ![p] = "done"]
  /\ UNCHANGED <<jobs, mtrk, todo>>

Next == \E p \in Procs : Begin(p) \/ End(p) \/ \E t \in Targets : Submit(p, t)
Spec == Init /\ [][Next]_vars

---------------------------------------------------------------------------
NoDuplicateLive == \A t \in Targets : Cardinality({j \in DOMAIN jobs : jobs[j] = t}) <= 1
AllDone         == \A p \in Procs : pc[p] # "run"
LiveJobsTracked == AllDone => \A j \in DOMAIN jobs : file[jobs[j]] = j
TypeOK == /\ file \in [Targets -> 0..Len(jobs)]
          /\ \A p \in Procs : todo[p] \subseteq Targets
=============================================================================
