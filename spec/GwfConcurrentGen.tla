------------------------- MODULE GwfConcurrentGen -------------------------
(* Every complete behaviour of GwfConcurrent (schedules for the driver), printed at its terminal state. *)
EXTENDS GwfConcurrent, Json
VARIABLE hist
GInit == Init /\ hist = << >>
GNext == \E p \in Procs :
           \/ Begin(p) /\ hist' = Append(hist, [act |-> "Begin", p |-> p, t |-> ""])
           \/ End(p) /\ hist' = Append(hist, [act |-> "End", p |-> p, t |-> ""])
           \/ \E t \in Targets : Submit(p, t) /\ hist' = Append(hist, [act |-> "Submit", p |-> p, t |-> t])
GSpec == GInit /\ [][GNext]_<<vars, hist>>
Emit == (\A p \in Procs : pc[p] = "done") => PrintT(ToJson([sel |-> Sel, hist |-> hist]))
=============================================================================
