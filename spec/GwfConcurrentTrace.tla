------------------------ MODULE GwfConcurrentTrace ------------------------
(* What two real gwf processes did under a driver-controlled schedule, judged step by step with the   *)
(* actions of GwfConcurrent: every recorded step must be that action, with the id the scheduler       *)
(* issued and the tracked-jobs file gwf left behind equal to the specification's.                     *)
EXTENDS GwfConcurrent, Json, IOUtils
Batch == JsonDeserialize(IOEnv.TRACE_FILE)
VARIABLES tid, l, bad, halt
tvars == <<vars, tid, l, bad, halt>>
Events == Batch[tid].events
Ev == Events[l]
FileEq(obs, f) == \A t \in Targets : obs[t] = f[t]
Stuck(name) == bad' = bad \cup {name} /\ halt' = TRUE /\ l' = l + 1 /\ UNCHANGED vars
Judge(cl) == bad' = bad \cup {c[1] : c \in {x \in cl : ~x[2]}} /\ halt' = FALSE /\ l' = l + 1

TraceInit == Init /\ tid \in 1..Len(Batch) /\ l = 1 /\ bad = {} /\ halt = FALSE
TBegin  == Ev.act = "Begin" /\ IF ENABLED Begin(Ev.p) THEN Begin(Ev.p) /\ Judge({}) ELSE Stuck("A4_begin_not_enabled")
TSubmit == Ev.act = "Submit" /\
           IF pc[Ev.p] = "run" /\ Ev.t \in todo[Ev.p]
           THEN Submit(Ev.p, Ev.t) /\ Judge({<<"A4_issued_id", Ev.id = Len(jobs) + 1>>, <<"A4_file_after_submit", FileEq(Ev.file, file')>>})
           ELSE Stuck("A4_unplanned_submit")
TEnd    == Ev.act = "End" /\
           IF pc[Ev.p] = "run" /\ todo[Ev.p] = {}
           THEN End(Ev.p) /\ Judge({<<"A4_file_after_end", FileEq(Ev.file, file')>>, <<"A4_exit", Ev.exit = 0>>})
           ELSE Stuck("A4_end_with_work_left")
TraceNext == ~halt /\ l <= Len(Events) /\ tid' = tid /\ (TBegin \/ TSubmit \/ TEnd)
TraceSpec == TraceInit /\ [][TraceNext]_tvars
(* what the final state says about the two invariants (expected to be violated in some schedules) *)
Verdict == \/ ~halt /\ l <= Len(Events)
           \/ PrintT(ToJson([id |-> Batch[tid].id, failed |-> bad, step |-> l - 1, len |-> Len(Events),
                              dup |-> ~NoDuplicateLive, lost |-> ~LiveJobsTracked]))
=============================================================================
