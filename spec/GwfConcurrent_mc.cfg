SPECIFICATION Spec
INVARIANT TypeOK
INVARIANT NoDuplicateLive
INVARIANT LiveJobsTracked
CHECK_DEADLOCK FALSE
