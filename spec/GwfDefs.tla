------------------------------ MODULE GwfDefs ------------------------------
(***************************************************************************)
(* Pure definitions shared by every gwf specification module: what a       *)
(* workflow is, which target depends on which, when a target is stale      *)
(* (make semantics, C01), what `gwf status` must show and what `gwf run`   *)
(* must submit with which prerequisites (C02, C05), and when a workflow    *)
(* is ill-formed (C04).  Written from the property statements, not from    *)
(* the code.                                                               *)
(*                                                                         *)
(* A workflow is a record w = [T, in, out] with T a finite set of target   *)
(* names and in, out \in [T -> SUBSET File].  Files are identified by      *)
(* their normalised absolute path (module Definition derives that from     *)
(* what the user wrote); here a file is just a string.                     *)
(* A file system is fs \in [File -> Int]: the logical modification time,   *)
(* or Missing.  Only the order of times matters.                           *)
(* A backend snapshot is b \in [T -> BState]:                              *)
(*   "U" no job tracked for the target, or the scheduler has no record     *)
(*   "S" queued/held   "R" executing   "C" ended successfully              *)
(*   "X" ended in a failure state      "K" cancelled                       *)
(***************************************************************************)
EXTENDS Integers, FiniteSets, Sequences, FiniteSetsExt

Missing == -1
BState  == {"U", "S", "R", "C", "X", "K"}
Live    == {"S", "R"}

(* Range(f) comes from Functions (via FiniteSetsExt): {f[x] : x \in DOMAIN f} *)

---------------------------------------------------------------------------
(* Dependency structure (C03 states that the implementation's graph is     *)
(* exactly this relation).                                                 *)

Deps(w, t)       == {d \in w.T : w.in[t] \cap w.out[d] # {}}
DepRel(w)        == {<<t, d>> \in w.T \X w.T : d \in Deps(w, t)}
Dependents(w, d) == {t \in w.T : d \in Deps(w, t)}
Endpoints(w)     == {t \in w.T : Dependents(w, t) = {}}
Producers(w, f)  == {t \in w.T : f \in w.out[t]}
AllIn(w)         == UNION {w.in[t] : t \in w.T}
AllOut(w)        == UNION {w.out[t] : t \in w.T}
Unresolved(w)    == AllIn(w) \ AllOut(w)

RECURSIVE ReachN(_, _, _)
ReachN(w, S, n) == IF n = 0 THEN S
                   ELSE ReachN(w, S \cup UNION {Deps(w, t) : t \in S}, n - 1)
(* every target reachable from t by one or more dependency edges *)
TransDeps(w, t) == ReachN(w, Deps(w, t), Cardinality(w.T))
Cone(w, S)      == S \cup UNION {TransDeps(w, t) : t \in S}
TransDependents(w, d) == {t \in w.T : d \in TransDeps(w, t)}

Acyclic(w) == \A t \in w.T : t \notin TransDeps(w, t)

(* C04: the kinds of defect that actually apply to (w, fs). *)
Errors(w, fs) ==
     (IF \E f \in AllOut(w) : Cardinality(Producers(w, f)) > 1 THEN {"multi"} ELSE {})
  \cup (IF \E f \in Unresolved(w) : fs[f] = Missing THEN {"unresolved"} ELSE {})
  \cup (IF ~Acyclic(w) THEN {"cycle"} ELSE {})

WellFormed(w, fs) == Errors(w, fs) = {}

---------------------------------------------------------------------------
(* C01: the make rule.  hok[t] is TRUE when spec hashing is off, or when   *)
(* it is on and the recorded hash of t equals the hash of its current      *)
(* spec.                                                                   *)

Stale(w, fs, hok, t) ==
  \/ ~hok[t]
  \/ w.out[t] = {}
  \/ \E f \in w.out[t] : fs[f] = Missing
  \/ /\ w.in[t] # {}
     /\ Max({fs[f] : f \in w.in[t]}) > Min({fs[f] : f \in w.out[t]})

(* C02/C05: the one table everything derives from.  Defined for acyclic w. *)
StatusMap(w, fs, hok, b) ==
  LET st[t \in w.T] ==
        LET sub == {d \in Deps(w, t) : st[d] # "completed"} IN
        CASE b[t] = "S" -> "submitted"
          [] b[t] = "R" -> "running"
          [] b[t] = "X" -> "failed"
          [] b[t] = "K" -> "cancelled"
          [] OTHER      -> IF sub # {} \/ Stale(w, fs, hok, t)
                           THEN "shouldrun" ELSE "completed"
  IN st

Resubmit == {"shouldrun", "failed", "cancelled"}

ToSubmit(w, fs, hok, b, sel) ==
  LET sm == StatusMap(w, fs, hok, b) IN {t \in Cone(w, sel) : sm[t] \in Resubmit}

(* direct dependencies the new job has to wait for *)
Prereq(w, fs, hok, b, t) ==
  LET sm == StatusMap(w, fs, hok, b) IN {d \in Deps(w, t) : sm[d] # "completed"}

(* the premise of C01 for target t *)
C01Premise(w, fs, hok, b, t) ==
  /\ b[t] \in {"U", "C"}
  /\ LET sm == StatusMap(w, fs, hok, b) IN \A d \in Deps(w, t) : sm[d] = "completed"

SubWf(w, S) == [T |-> S, in |-> [t \in S |-> w.in[t]], out |-> [t \in S |-> w.out[t]]]
=============================================================================
