----------------------------- MODULE GwfProject -----------------------------
(***************************************************************************)
(* The gwf project state machine: a workflow, the files on disk with       *)
(* logical modification times, the scheduler's job table with dependency   *)
(* holds, gwf's two state files (tracked job ids, spec hashes), the        *)
(* configuration switch for spec hashing, and the gwf commands as actions. *)
(* `gwf run` is split into RunBegin / RunSubmit per accepted submission /  *)
(* RunEnd so that rejected submissions (RunReject) and a kill of the       *)
(* process (Crash) can hit it between any two submissions.  The scheduler  *)
(* is part of the model (JobStart, JobEnd, Purge, and the effect of        *)
(* cancel) with the documented semantics of the dependency flag of each    *)
(* back end.                                                               *)
(*                                                                         *)
(* Properties stated here: C02 (plan), C05 (previews), C06 (convergence),  *)
(* C07 (no early start), C08 (own job), C09 (interrupted runs), C15        *)
(* (clean), C16 (touch), C17 (cancel), C18 (spec hashes).                  *)
(***************************************************************************)
EXTENDS GwfDefs, TLC

CONSTANTS
  Backend,            \* "slurm" | "slurm_noacct" | "sge" | "lsf" | "local"
  PersistEachSubmit,  \* TRUE: tracked ids are durable after every accepted submission
  Interleave,         \* TRUE: scheduler/environment steps may occur while `gwf run` is in progress
  WfNames,            \* which workflows of the catalogue Init may pick
  MaxJobs, MaxEnv, MaxFaults, MaxCmds,
  AnyInitFs,          \* TRUE: Init picks any present/missing/age state of the outputs
  Allow               \* names of the action classes Next may take (shapes generation)

NoRec == -1            \* "no hash recorded"
NoJob == 0             \* "no job tracked"

---------------------------------------------------------------------------
(* A small catalogue of workflow shapes.  prot = protected outputs.        *)
Wf(T, in, out, prot) == [T |-> T, in |-> in, out |-> out, prot |-> prot]
E(T) == [t \in T |-> {}]
Catalogue ==
  [ chain3  |-> Wf({"A","B","C"},
                   [A |-> {"s1"}, B |-> {"a"}, C |-> {"b"}],
                   [A |-> {"a"},  B |-> {"b"}, C |-> {"c"}], E({"A","B","C"})),
    diamond |-> Wf({"A","B","C","D"},
                   [A |-> {"s1"}, B |-> {"a"}, C |-> {"a"}, D |-> {"b","c"}],
                   [A |-> {"a"},  B |-> {"b"}, C |-> {"c"}, D |-> {"d"}],
                   [A |-> {}, B |-> {"b"}, C |-> {}, D |-> {}]),
    forksink |-> Wf({"A","B","C"},
                   [A |-> {"s1"}, B |-> {"a"}, C |-> {"a"}],
                   [A |-> {"a"},  B |-> {"b"}, C |-> {}], E({"A","B","C"})),
    twoparts |-> Wf({"A","B","C"},
                   [A |-> {}, B |-> {"a"}, C |-> {"s1"}],
                   [A |-> {"a"}, B |-> {"b"}, C |-> {"c"}],
                   [A |-> {"a"}, B |-> {}, C |-> {}]),
    join    |-> Wf({"A","B","C"},
                   [A |-> {"s1"}, B |-> {"s2"}, C |-> {"a","b"}],
                   [A |-> {"a"},  B |-> {"b"}, C |-> {"c","c2"}], E({"A","B","C"})),
    shortcut |-> Wf({"A","B","C"},      \* C reads a file of A directly and one of B, which is made from A's
                   [A |-> {"s1"}, B |-> {"a"}, C |-> {"a","b"}],
                   [A |-> {"a"},  B |-> {"b"}, C |-> {"c"}],
                   [A |-> {}, B |-> {"a"}, C |-> {}]),      \* B "protects" its input: that binds nobody else
    pair    |-> Wf({"A","B"},
                   [A |-> {"s1"}, B |-> {"a"}],
                   [A |-> {"a"},  B |-> {"b"}], E({"A","B"})) ]

VARIABLES
  w,        \* the workflow (fixed during a behaviour)
  specv,    \* [T -> Nat]: version of each target's spec text
  fs,       \* [Files -> Int]: logical mtime or Missing
  clock,    \* the latest logical time handed out
  jobs,     \* Seq of [tgt, st, hold, needs]: the scheduler's job table, id = index
  trk,      \* [T -> id | NoJob]: the tracked-jobs file
  hsh,      \* [T -> version | NoRec]: the spec-hashes file
  useHash,  \* configuration: use_spec_hashes
  gp,       \* the gwf run in progress (pc = "idle" when none)
  conv,     \* history: [ok, sel] - the last run ended cleanly and nothing disturbed the project since; and
            \* shelf: what is stored under the original name of a target that currently goes by another name
  cnt,      \* budgets used so far: [env, faults, cmds]
  hist      \* history of actions (for scenario generation; hidden by VIEW in design checks)

vars == <<w, specv, fs, clock, jobs, trk, hsh, useHash, gp, conv, cnt, hist>>
core == <<w, specv, fs, clock, jobs, trk, hsh, useHash, gp, conv, cnt>>

T     == w.T
Files == AllIn(w) \cup AllOut(w)
W3    == [T |-> w.T, in |-> w.in, out |-> w.out]

---------------------------------------------------------------------------
(* Scheduler semantics (A1).                                               *)
FinishedVisible == Backend \in {"slurm", "lsf", "local"}
AfterOK         == Backend \in {"slurm", "slurm_noacct", "lsf", "local"}   \* SGE hold_jid: any end releases
Finished(j)     == jobs[j].st \in {"OK", "FAIL", "CA"}
LiveJob(j)      == jobs[j].st \in {"PD", "R", "E"}
(* "E": the job is alive in the queue but shown with a code gwf cannot classify (SGE Eqw, LSF    *)
(* UNKWN, a Slurm code outside its table): gwf then knows nothing about it (view "U").  The job  *)
(* can still be cancelled, and comes back as pending when the operator clears the condition.    *)
JobIds          == DOMAIN jobs

View(job) == IF job.gone THEN "U" ELSE
            CASE job.st = "PD"   -> "S"
              [] job.st = "R"    -> "R"
              [] job.st = "E"    -> "U"
              [] job.st = "OK"   -> IF FinishedVisible THEN "C" ELSE "U"
              [] job.st = "FAIL" -> IF FinishedVisible THEN "X" ELSE "U"
              [] job.st = "CA"   -> IF ~FinishedVisible THEN "U" ELSE IF Backend = "lsf" THEN "X" ELSE "K"

(* C08: the state of a target is the view of its own latest tracked job *)
SnapIn(tr, jb) == [t \in T |-> IF tr[t] = NoJob THEN "U" ELSE View(jb[tr[t]])]
SnapOf(tr) == SnapIn(tr, jobs)
Snap       == SnapOf(trk)

CanStart(j) == /\ jobs[j].st = "PD"
               /\ \A k \in jobs[j].hold : Finished(k) /\ (AfterOK => jobs[k].st = "OK")

Hok     == [t \in T |-> ~useHash \/ hsh[t] = specv[t]]
Table   == StatusMap(W3, fs, Hok, Snap)
EffSel(sel) == IF sel = {} THEN Endpoints(W3) ELSE sel
Idle    == gp.pc = "idle"
IdleGp  == [pc |-> "idle", sel |-> {}, b |-> [t \in T |-> "U"], todo |-> {}, plan |-> {},
            mtrk |-> [t \in T |-> NoJob], mhsh |-> [t \in T |-> NoRec], hashing |-> FALSE, fs0 |-> [f \in Files |-> Missing]]
LiveTargets == {jobs[j].tgt : j \in {k \in JobIds : LiveJob(k)}}

Log(act, args) == hist' = Append(hist, [act |-> act] @@ args)
Bump(f) == cnt' = [cnt EXCEPT ![f] = @ + 1]
Disturb == conv' = [conv EXCEPT !.ok = FALSE]

---------------------------------------------------------------------------
(* gwf commands                                                            *)

Status(sel) ==
  /\ Idle /\ cnt.cmds < MaxCmds
  /\ UNCHANGED <<w, specv, fs, clock, jobs, trk, hsh, useHash, gp, conv>>
  /\ Bump("cmds") /\ Log("Status", [sel |-> sel])

DryRun(sel) ==
  /\ Idle /\ cnt.cmds < MaxCmds
  /\ UNCHANGED <<w, specv, fs, clock, jobs, trk, hsh, useHash, gp, conv>>
  /\ Bump("cmds") /\ Log("DryRun", [sel |-> sel])

(* gwf run, step 1: query the scheduler once, freeze the plan *)
RunBegin(sel) ==
  /\ Idle /\ cnt.cmds < MaxCmds
  /\ LET plan == ToSubmit(W3, fs, Hok, Snap, EffSel(sel)) IN
     gp' = [pc |-> "run", sel |-> sel, b |-> Snap, todo |-> plan, plan |-> plan,
            mtrk |-> trk, mhsh |-> hsh, hashing |-> useHash, fs0 |-> fs]
  /\ conv' = [conv EXCEPT !.ok = (LiveTargets = {}), !.sel = EffSel(sel)]
  /\ UNCHANGED <<w, specv, fs, clock, jobs, trk, hsh, useHash>>
  /\ Bump("cmds") /\ Log("RunBegin", [sel |-> sel])

(* the prerequisites of t as frozen at RunBegin (gwf queries the scheduler once and stats *)
(* every file at most once per invocation) *)
RunPrereq(t) == Prereq(W3, gp.fs0, Hok, gp.b, t)
Submittable(t) == gp.pc = "run" /\ t \in gp.todo /\ RunPrereq(t) \cap gp.todo = {}
(* ids the new job has to wait for: the latest id of every prerequisite *)
HoldFor(t) == {gp.mtrk[d] : d \in RunPrereq(t)}
(* history: the jobs that were really producing t's inputs at this moment *)
NeedsFor(t) == {j \in JobIds : LiveJob(j) /\ jobs[j].tgt \in Deps(W3, t)}

(* step 2: one submission accepted by the scheduler.  RunSubmitH takes the hold list the scheduler *)
(* is given; gwf gives HoldFor(t).  (Trace validation passes the list it observed, so that the   *)
(* scheduler model goes on with what it was really told.)                                        *)
RunSubmitH(t, h) ==
  /\ Submittable(t) /\ Len(jobs) < MaxJobs
  /\ LET id == Len(jobs) + 1 IN
     /\ jobs' = Append(jobs, [tgt |-> t, st |-> "PD", hold |-> h, needs |-> NeedsFor(t), gone |-> FALSE, ran |-> FALSE])
     /\ gp' = [gp EXCEPT !.todo = @ \ {t}, !.mtrk[t] = id,
                         !.mhsh[t] = IF gp.hashing THEN specv[t] ELSE @]
     /\ trk' = IF PersistEachSubmit THEN gp'.mtrk ELSE trk
  /\ UNCHANGED <<w, specv, fs, clock, hsh, useHash, conv, cnt>>
  /\ Log("RunSubmit", [t |-> t])
RunSubmit(t) == RunSubmitH(t, HoldFor(t))

(* the scheduler rejects the submission of t: gwf stops, keeping what was accepted so far *)
RunReject(t) ==
  /\ Submittable(t) /\ cnt.faults < MaxFaults
  /\ trk' = gp.mtrk /\ hsh' = gp.mhsh /\ gp' = IdleGp
  /\ Disturb /\ Bump("faults")
  /\ UNCHANGED <<w, specv, fs, clock, jobs, useHash>>
  /\ Log("RunReject", [t |-> t])

(* step 3: everything submitted; both state files are written *)
RunEnd ==
  /\ gp.pc = "run" /\ gp.todo = {}
  /\ trk' = gp.mtrk /\ hsh' = gp.mhsh /\ gp' = IdleGp
  /\ UNCHANGED <<w, specv, fs, clock, jobs, useHash, conv, cnt>>
  /\ Log("RunEnd", << >>)

(* the gwf process is killed between two submissions: nothing more is written *)
Crash ==
  /\ gp.pc = "run" /\ cnt.faults < MaxFaults
  /\ gp' = IdleGp
  /\ Disturb /\ Bump("faults")
  /\ UNCHANGED <<w, specv, fs, clock, jobs, trk, hsh, useHash>>
  /\ Log("Crash", [after |-> Cardinality(gp.plan \ gp.todo)])

(* the gwf process is killed inside a write of one of its state files.  State-file writes *)
(* are atomic: the file keeps its previous content or has the new one, never a torn mix.  *)
(* Modelled for the writes at the end of the run (file = "trk" or "hsh"); a kill inside the *)
(* write that records the job accepted last is the residual window of assumption A6.      *)
CrashWrite(file) ==
  /\ gp.pc = "run" /\ gp.todo = {} /\ cnt.faults < MaxFaults
  /\ file = "hsh" => gp.hashing
  /\ gp' = IdleGp
  /\ trk' = gp.mtrk
  /\ hsh' \in {hsh, gp.mhsh}
  /\ Disturb /\ Bump("faults")
  /\ UNCHANGED <<w, specv, fs, clock, jobs, useHash>>
  /\ Log("CrashWrite", [file |-> file, after |-> Cardinality(gp.plan \ gp.todo)])

(* the queue/accounting query fails: gwf stops before doing anything *)
QueryFail(sel) ==
  /\ Idle /\ cnt.faults < MaxFaults /\ cnt.cmds < MaxCmds
  /\ Bump("faults")
  /\ UNCHANGED <<w, specv, fs, clock, jobs, trk, hsh, useHash, gp, conv>>
  /\ Log("QueryFail", [sel |-> sel])

(* C16.  What touch must achieve, as a relation between the file systems. *)
TouchCone(sel) == Cone(W3, EffSel(sel))
TouchedFiles(sel) == UNION {w.out[t] : t \in TouchCone(sel)}
TouchKeeps(sel, fs1, fs2) == \A f \in Files \ TouchedFiles(sel) : fs2[f] = fs1[f]
TouchFresh(sel, fs1, fs2) == \A f \in TouchedFiles(sel) : fs2[f] # Missing /\ fs2[f] > clock
TouchOrder(sel, fs1, fs2) == \A t \in TouchCone(sel) : \A i \in w.in[t], o \in w.out[t] : fs2[i] <= fs2[o]
TouchPost(sel, fs1, fs2)  == TouchKeeps(sel, fs1, fs2) /\ TouchFresh(sel, fs1, fs2) /\ TouchOrder(sel, fs1, fs2)
(* canonical choice for generation: a target's outputs get clock + 1 + its depth in the cone *)
RECURSIVE Depth(_)
Depth(t) == IF Deps(W3, t) = {} THEN 0 ELSE 1 + Max({Depth(d) : d \in Deps(W3, t)})
CanonTouch(sel) == [f \in Files |-> IF f \in TouchedFiles(sel)
                                   THEN clock + 1 + Depth(CHOOSE t \in T : f \in w.out[t])
                                   ELSE fs[f]]
TouchHashes(sel) == IF useHash THEN [t \in T |-> IF t \in TouchCone(sel) THEN specv[t] ELSE hsh[t]] ELSE hsh

Touch(sel) ==
  /\ Idle /\ cnt.cmds < MaxCmds
  /\ fs' = CanonTouch(sel)
  /\ clock' = Max({clock} \cup {fs'[f] : f \in Files})
  /\ hsh' = TouchHashes(sel)
  /\ Disturb /\ Bump("cmds")
  /\ UNCHANGED <<w, specv, jobs, trk, useHash, gp>>
  /\ Log("Touch", [sel |-> sel])

(* C15 *)
CleanMatches(sel, all) == (IF sel = {} THEN T ELSE sel) \ (IF all THEN {} ELSE Endpoints(W3))
CleanRemoved(sel, all) == UNION {w.out[t] \ w.prot[t] : t \in CleanMatches(sel, all)}
CleanHashes(sel, all)  == IF useHash THEN [t \in T |-> IF t \in CleanMatches(sel, all) THEN NoRec ELSE hsh[t]] ELSE hsh

Clean(sel, all) ==
  /\ Idle /\ cnt.cmds < MaxCmds
  /\ fs' = [f \in Files |-> IF f \in CleanRemoved(sel, all) THEN Missing ELSE fs[f]]
  /\ hsh' = CleanHashes(sel, all)
  /\ Disturb /\ Bump("cmds")
  /\ UNCHANGED <<w, specv, clock, jobs, trk, useHash, gp>>
  /\ Log("Clean", [sel |-> sel, all |-> all, declined |-> FALSE])

(* `gwf clean` / `gwf cancel` without names ask for confirmation; declining changes nothing *)
Declined(cmd) ==
  /\ Idle /\ cnt.cmds < MaxCmds
  /\ UNCHANGED <<w, specv, fs, clock, jobs, trk, hsh, useHash, gp, conv>>
  /\ Bump("cmds") /\ Log(cmd, [sel |-> {}, all |-> FALSE, refused |-> {}, declined |-> TRUE])

(* C17: the requests, and the state once the scheduler has carried them out *)
CancelTargets(sel)  == IF sel = {} THEN T ELSE sel
CancelRequests(sel) == {trk[t] : t \in {u \in CancelTargets(sel) : trk[u] # NoJob}}
(* refused: the requests the scheduler answers with an error (nothing happens to those jobs) *)
Cancel(sel, refused) ==
  /\ Idle /\ cnt.cmds < MaxCmds /\ refused \subseteq CancelRequests(sel)
  /\ jobs' = [j \in JobIds |-> IF j \in CancelRequests(sel) \ refused /\ LiveJob(j)
                               THEN [jobs[j] EXCEPT !.st = "CA"] ELSE jobs[j]]
  /\ Disturb /\ Bump("cmds")
  /\ UNCHANGED <<w, specv, fs, clock, trk, hsh, useHash, gp>>
  /\ Log("Cancel", [sel |-> sel, refused |-> refused, declined |-> FALSE])

---------------------------------------------------------------------------
(* the user and the world                                                  *)
EnvOK == (Idle \/ Interleave) /\ cnt.env < MaxEnv

EditSource(f) ==
  /\ EnvOK /\ f \in Unresolved(W3) /\ fs[f] # Missing
  /\ fs' = [fs EXCEPT ![f] = clock + 1] /\ clock' = clock + 1
  /\ Disturb /\ Bump("env")
  /\ UNCHANGED <<w, specv, jobs, trk, hsh, useHash, gp>>
  /\ Log("EditSource", [f |-> f])

DeleteOutput(f) ==
  /\ EnvOK /\ f \in AllOut(W3) /\ fs[f] # Missing
  /\ fs' = [fs EXCEPT ![f] = Missing]
  /\ Disturb /\ Bump("env")
  /\ UNCHANGED <<w, specv, clock, jobs, trk, hsh, useHash, gp>>
  /\ Log("DeleteOutput", [f |-> f])

EditSpec(t) ==
  /\ EnvOK /\ Idle
  /\ specv' = [specv EXCEPT ![t] = @ + 1]
  /\ Disturb /\ Bump("env")
  /\ UNCHANGED <<w, fs, clock, jobs, trk, hsh, useHash, gp>>
  /\ Log("EditSpec", [t |-> t])

(* The user renames a target in the workflow file (or removes it and adds it again under another name). gwf keys *)
(* everything by name: under its new name the target has never been submitted and has no recorded spec; what is  *)
(* stored under the old name is no longer anybody's (the old job, if alive, goes on in the scheduler).           *)
Rename(t) ==
  /\ EnvOK /\ Idle /\ ~conv.shelf[t].away
  /\ trk' = [trk EXCEPT ![t] = NoJob]
  /\ hsh' = [hsh EXCEPT ![t] = NoRec]
  /\ conv' = [conv EXCEPT !.ok = FALSE, !.shelf[t] = [away |-> TRUE, trk |-> trk[t], hsh |-> hsh[t]]]
  /\ Bump("env")
  /\ UNCHANGED <<w, specv, fs, clock, jobs, useHash, gp>>
  /\ Log("Rename", [t |-> t])

(* ... and gives it its original name back (a target commented out for a while, a generated name that came and  *)
(* went): what was stored under that name is the target's again, untouched by everything done in between       *)
RenameBack(t) ==
  /\ EnvOK /\ Idle /\ conv.shelf[t].away
  /\ trk' = [trk EXCEPT ![t] = conv.shelf[t].trk]
  /\ hsh' = [hsh EXCEPT ![t] = conv.shelf[t].hsh]
  /\ conv' = [conv EXCEPT !.ok = FALSE, !.shelf[t].away = FALSE]
  /\ Bump("env")
  /\ UNCHANGED <<w, specv, fs, clock, jobs, useHash, gp>>
  /\ Log("RenameBack", [t |-> t])

SetUseHash(v) ==
  /\ EnvOK /\ Idle /\ v # useHash
  /\ useHash' = v
  /\ Disturb /\ Bump("env")
  /\ UNCHANGED <<w, specv, fs, clock, jobs, trk, hsh, gp>>
  /\ Log("SetUseHash", [v |-> v])

---------------------------------------------------------------------------
(* the scheduler                                                           *)
SchedOK == Idle \/ Interleave

JobStart(j) ==
  /\ SchedOK /\ CanStart(j)
  /\ jobs' = [jobs EXCEPT ![j].st = "R", ![j].ran = TRUE]
  /\ UNCHANGED <<w, specv, fs, clock, trk, hsh, useHash, gp, conv, cnt>>
  /\ Log("JobStart", [t |-> jobs[j].tgt, j |-> j])

(* tie: the job gives its outputs the modification time of its newest input (cp -p, rsync -a): *)
(* equal times are not "strictly newer", so such outputs are up to date                        *)
OutTime(t, tie) == LET ins == {fs[f] : f \in {g \in w.in[t] : fs[g] # Missing}} IN
                   IF tie /\ ins # {} THEN Max(ins) ELSE clock + 1
JobEnd(j, ok, tie) ==
  /\ SchedOK /\ jobs[j].st = "R" /\ (tie => ok)
  /\ jobs' = [jobs EXCEPT ![j].st = IF ok THEN "OK" ELSE "FAIL"]
  /\ IF ok THEN /\ fs' = [f \in Files |-> IF f \in w.out[jobs[j].tgt] THEN OutTime(jobs[j].tgt, tie) ELSE fs[f]]
                /\ clock' = clock + 1 /\ conv' = conv
          ELSE /\ UNCHANGED <<fs, clock>> /\ Disturb
  /\ UNCHANGED <<w, specv, trk, hsh, useHash, gp, cnt>>
  /\ Log("JobEnd", [t |-> jobs[j].tgt, j |-> j, ok |-> ok, tie |-> tie])

(* the scheduler forgets a finished job (slurm without accounting / SGE never show it; *)
(* with accounting the record ages out) *)
Purge(j) ==
  /\ SchedOK /\ Finished(j) /\ ~jobs[j].gone /\ cnt.env < MaxEnv
  /\ jobs' = [jobs EXCEPT ![j].gone = TRUE]
  /\ Bump("env")
  /\ UNCHANGED <<w, specv, fs, clock, trk, hsh, useHash, gp, conv>>
  /\ Log("Purge", [t |-> jobs[j].tgt, j |-> j])

JobStick(j) ==
  /\ SchedOK /\ Backend \in {"sge", "lsf", "slurm_noacct"} /\ jobs[j].st = "PD" /\ ~jobs[j].gone /\ cnt.env < MaxEnv
  /\ jobs' = [jobs EXCEPT ![j].st = "E"]
  /\ Disturb /\ Bump("env")
  /\ UNCHANGED <<w, specv, fs, clock, trk, hsh, useHash, gp>>
  /\ Log("JobStick", [t |-> jobs[j].tgt, j |-> j])

JobUnstick(j) ==
  /\ SchedOK /\ jobs[j].st = "E"
  /\ jobs' = [jobs EXCEPT ![j].st = "PD"]
  /\ Disturb
  /\ UNCHANGED <<w, specv, fs, clock, trk, hsh, useHash, gp, cnt>>
  /\ Log("JobUnstick", [t |-> jobs[j].tgt, j |-> j])

(* The local worker pool differs from the cluster schedulers in two ways.  A held task whose *)
(* prerequisites have all ended, one of them not successfully, ends at once with that          *)
(* prerequisite's state without ever running (a cluster job would stay pending for ever).      *)
JobInherit(j) ==
  /\ SchedOK /\ Backend = "local" /\ jobs[j].st = "PD"
  /\ \A k \in jobs[j].hold : Finished(k)
  /\ \E k \in jobs[j].hold : jobs[k].st # "OK" /\ jobs' = [jobs EXCEPT ![j].st = jobs[k].st]
  /\ Disturb
  /\ UNCHANGED <<w, specv, fs, clock, trk, hsh, useHash, gp, cnt>>
  /\ Log("JobInherit", [t |-> jobs[j].tgt, j |-> j])

(* And the pool can be restarted: it then knows none of the earlier tasks (running ones die). *)
(* A tracked id of an earlier pool must then count as "no record", never as another task.     *)
PoolRestart ==
  /\ SchedOK /\ Idle /\ Backend = "local" /\ cnt.env < MaxEnv
  /\ jobs' = [j \in JobIds |-> [jobs[j] EXCEPT !.gone = TRUE, !.st = IF LiveJob(j) THEN "CA" ELSE @]]
  /\ Disturb /\ Bump("env")
  /\ UNCHANGED <<w, specv, fs, clock, trk, hsh, useHash, gp>>
  /\ Log("PoolRestart", << >>)

---------------------------------------------------------------------------
InitFs(wf) == [f \in AllIn(wf) \cup AllOut(wf) |->
                 IF f \in (AllIn(wf) \ AllOut(wf)) THEN 0 ELSE Missing]

Init ==
  /\ \E n \in WfNames : w = Catalogue[n]
  /\ specv = [t \in w.T |-> 0]
  /\ fs \in IF AnyInitFs
            THEN {g \in [AllIn(w) \cup AllOut(w) -> {Missing, 0, 1}] : \A f \in AllIn(w) \ AllOut(w) : g[f] # Missing}
            ELSE {InitFs(w)}
  /\ clock = 1
  /\ jobs = << >>
  /\ trk = [t \in w.T |-> NoJob]
  /\ hsh = [t \in w.T |-> NoRec]
  /\ useHash \in BOOLEAN
  /\ gp = [pc |-> "idle", sel |-> {}, b |-> [t \in w.T |-> "U"], todo |-> {}, plan |-> {},
           mtrk |-> [t \in w.T |-> NoJob], mhsh |-> [t \in w.T |-> NoRec], hashing |-> FALSE, fs0 |-> [f \in AllIn(w) \cup AllOut(w) |-> Missing]]
  /\ conv = [ok |-> FALSE, sel |-> {}, shelf |-> [t \in w.T |-> [away |-> FALSE, trk |-> NoJob, hsh |-> NoRec]]]
  /\ cnt = [env |-> 0, faults |-> 0, cmds |-> 0]
  /\ hist = << >>

Sels == {{}} \cup {{a, b} : a, b \in T} \cup {T}   \* none given, one or two names, every name
On(a) == a \in Allow
(* generation shaping: with "QuietRuns" runs and status queries happen only between drains *)
QuietIfAsked == On("QuietRuns") => LiveTargets = {}

GwfNext ==
  \/ \E sel \in Sels : (On("Status") /\ QuietIfAsked /\ Status(sel)) \/ (On("DryRun") /\ DryRun(sel))
                         \/ (On("Run") /\ QuietIfAsked /\ RunBegin(sel)) \/ (On("Touch") /\ Touch(sel))
                         \/ (On("QueryFail") /\ QueryFail(sel))
  \/ On("Cancel") /\ \E sel \in Sels : \E r \in SUBSET CancelRequests(sel) :
                          /\ Cardinality(r) <= MaxFaults - cnt.faults
                          /\ On("UsefulCancel") => \E j \in CancelRequests(sel) : LiveJob(j)   \* generation shaping
                          /\ Cancel(sel, r)
  \/ On("Clean") /\ \E sel \in Sels, all \in BOOLEAN : Clean(sel, all)
  \/ (On("Clean") /\ Declined("Clean")) \/ (On("Cancel") /\ ~On("UsefulCancel") /\ Declined("Cancel"))
  \/ \E t \in T : RunSubmit(t) \/ (On("Reject") /\ RunReject(t))
  \/ RunEnd \/ (On("Crash") /\ Crash) \/ (On("CrashWrite") /\ \E file \in {"trk", "hsh"} : CrashWrite(file))
EnvNext ==
  \/ \E f \in Files : (On("EditSource") /\ EditSource(f)) \/ (On("DeleteOutput") /\ DeleteOutput(f))
  \/ On("EditSpec") /\ \E t \in T : EditSpec(t)
  \/ On("Rename") /\ \E t \in T : (Rename(t) /\ (On("UsefulRename") => useHash /\ hsh[t] # NoRec)) \/ RenameBack(t)
  \/ On("SetUseHash") /\ \E v \in BOOLEAN : SetUseHash(v)
SchedNext ==
  \E j \in JobIds : JobStart(j) \/ (On("Purge") /\ Purge(j)) \/ JobEnd(j, TRUE, FALSE)
                     \/ (On("Ties") /\ JobEnd(j, TRUE, TRUE)) \/ (On("JobFail") /\ JobEnd(j, FALSE, FALSE))
                     \/ JobInherit(j) \/ (On("Stick") /\ (JobStick(j) \/ JobUnstick(j)))

(* padding for the generator: once the command budget is used up a behaviour may idle *)
Halt == /\ Idle /\ cnt.cmds >= MaxCmds /\ UNCHANGED core /\ Log("Halt", << >>)

Next == GwfNext \/ EnvNext \/ SchedNext \/ (On("Halt") /\ Halt) \/ (On("PoolRestart") /\ PoolRestart)
Spec == Init /\ [][Next]_vars

---------------------------------------------------------------------------
(* Invariants                                                              *)

LastAct == IF Len(hist) = 0 THEN "none" ELSE hist[Len(hist)].act

(* C09: never two live jobs for one target *)
C09_NoDuplicateLive ==
  \A t \in T : Cardinality({j \in JobIds : LiveJob(j) /\ jobs[j].tgt = t}) <= 1

(* C09: whenever gwf is not running, every live job is the tracked job of its target *)
C09_LiveJobsTracked ==
  Idle => \A j \in JobIds : LiveJob(j) => trk[jobs[j].tgt] = j

(* C07: a job that has started waited for every job that was producing its inputs *)
C07_NoEarlyStart ==
  \A j \in JobIds : jobs[j].ran =>
     \A k \in jobs[j].needs : Finished(k) /\ (AfterOK => jobs[k].st = "OK")

(* C07: the hold list names exactly the live jobs of the direct dependencies *)
C07_HoldCoversNeeds == \A j \in JobIds : jobs[j].needs \subseteq jobs[j].hold
C07_HoldIsNeeds     == ~Interleave => \A j \in JobIds : jobs[j].hold = jobs[j].needs

(* C06: after a clean run has drained, the cone is complete and a re-run is a no-op *)
Drained == Idle /\ LiveTargets = {} /\ conv.ok
C06_Converged ==
  Drained => /\ \A t \in Cone(W3, conv.sel) : w.out[t] # {} => Table[t] = "completed"
             /\ ToSubmit(W3, fs, Hok, Snap, conv.sel) \subseteq {t \in T : w.out[t] = {}}

(* C18/C09: a hash on record was put there by an accepted submission or a touch *)
C18_HashNeverAhead == \A t \in T : hsh[t] # NoRec => hsh[t] <= specv[t]

(* C16: the canonical touch satisfies the touch relation *)
C16_CanonOK == \A sel \in Sels : TouchPost(sel, fs, CanonTouch(sel))

TypeOK ==
  /\ trk \in [T -> 0..Len(jobs)]
  /\ \A j \in JobIds : jobs[j].hold \subseteq 1..(j - 1) /\ jobs[j].tgt \in T
  /\ gp.pc \in {"idle", "run"}

---------------------------------------------------------------------------
(* Action properties                                                       *)

(* C18: records change only by accepted submission (at RunEnd/RunReject, when the file is   *)
(* written), touch and clean, and only while hashing is enabled *)
A_HashChange ==
  \A t \in T : hsh'[t] # hsh[t] =>
     /\ useHash \/ gp.hashing
     /\ \/ hsh'[t] = specv[t] /\ LastAct' \in {"RunEnd", "RunReject", "Touch", "CrashWrite"}
        \/ hsh'[t] = NoRec /\ LastAct' = "Clean"
P_HashChange == [][A_HashChange]_vars

(* C05: previews change nothing *)
A_PreviewPure == (hist' # hist /\ (LastAct' \in {"Status", "DryRun", "QueryFail"}
                                     \/ (LastAct' \in {"Clean", "Cancel"} /\ hist'[Len(hist')].declined))) =>
                   UNCHANGED <<w, specv, fs, clock, jobs, trk, hsh, useHash, gp>>
P_PreviewPure == [][A_PreviewPure]_vars

(* C02: nothing outside the plan is touched by a run *)
A_RunOutside == \A t \in T : (trk'[t] # trk[t] /\ t \notin gp.plan) => FALSE
P_RunOutside == [][A_RunOutside]_vars

(* C17: after cancel none of the selected targets is shown submitted or running *)
A_CancelAfter == (LastAct' = "Cancel" /\ hist' # hist) =>
   LET e == hist'[Len(hist')] IN
   ~e.declined => \A t \in CancelTargets(e.sel) : (trk[t] # NoJob /\ trk[t] \notin e.refused) => SnapIn(trk, jobs')[t] \notin {"S", "R"}
P_CancelAfter == [][A_CancelAfter]_vars

View1 == core   \* design checks ignore the history variable
=============================================================================
