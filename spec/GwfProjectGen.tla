--------------------------- MODULE GwfProjectGen ---------------------------
(***************************************************************************)
(* Behaviour generator: run with `tlc -simulate`; every behaviour that     *)
(* reaches depth D (or has nothing left to do) is printed as JSON: the     *)
(* initial abstract state followed by the history of actions.  The driver  *)
(* executes the gwf commands, imposes the environment and scheduler steps, *)
(* and records what the real gwf did at each step.                         *)
(***************************************************************************)
EXTENDS GwfProject, Json

CONSTANT D

Scenario == [wf |-> CHOOSE n \in WfNames : Catalogue[n] = w, w |-> w, backend |-> Backend, hist |-> hist]

Quiet == Idle /\ \A j \in JobIds : ~CanStart(j) /\ jobs[j].st # "R"

(* used as a state constraint: print and stop extending at depth D *)
EmitAtDepth == IF TLCGet("level") >= D THEN PrintT(ToJson(Scenario)) /\ FALSE ELSE TRUE

(* the initial state is recorded as the first history entry *)
GenInit == /\ Init!1 /\ Init!2 /\ Init!3 /\ Init!4 /\ Init!5 /\ Init!6 /\ Init!7 /\ Init!8 /\ Init!9
           /\ Init!10 /\ Init!11
           /\ hist = << [act |-> "Init", fs |-> fs, useHash |-> useHash] >>
GenSpec == GenInit /\ [][Next]_vars
=============================================================================
