-------------------------- MODULE GwfProjectTrace --------------------------
(***************************************************************************)
(* Trace validation for GwfProject.  The batch file holds many traces;    *)
(* each is the sequence of events the driver recorded while executing one  *)
(* TLC-generated behaviour against the real gwf.  An event names a spec    *)
(* action with its arguments and carries what gwf observably did.  Each    *)
(* step takes the *same* action definition as GwfProject with the logged   *)
(* arguments; if the action is not enabled (e.g. gwf submitted a target    *)
(* that is not submittable in the specification) the trace is stuck and    *)
(* the clause naming the reason is reported; otherwise the observation     *)
(* clauses are evaluated against the specification state and the names of *)
(* the false ones reported.  Validation of a trace stops at its first      *)
(* failing step.                                                           *)
(***************************************************************************)
EXTENDS GwfProject, Json, IOUtils

Batch == JsonDeserialize(IOEnv.TRACE_FILE)

VARIABLES tid, l, bad, dr, hits, halt, first
tvars == <<vars, tid, l, bad, dr, hits, halt, first>>

Events == Batch[tid].events
Ev     == Events[l]
S(x)   == Range(x)                     \* JSON array -> set

(* observed maps are JSON objects over all targets / files *)
EqT(obs, f) == \A t \in T : obs[t] = f[t]
EqF(obs, f) == \A x \in Files : obs[x] = f[x]
After(e, tr, hs, f) == <<EqT(e.after.trk, tr), EqT(e.after.hsh, hs), EqF(e.after.fs, f)>>

(* besides the step's own clauses, the specification's invariants are evaluated on the new state *)
(* a clause is <<name, holds>> or <<name, holds, exercised>>: `exercised` says that the   *)
(* clause was not vacuous at this step; the names of exercised clauses are collected in   *)
(* hits so that a run in which a property was never really tested is recognised.          *)
(* Failed clauses are accumulated over the whole trace (the state keeps following the specification  *)
(* fed with what was observed, so later steps show the consequences of an earlier deviation); a     *)
(* trace ends early only when an event is not enabled in the specification at all (Stuck).          *)
NewBad(cl) == {c[1] : c \in {x \in cl \cup {<<"C09_no_duplicate_live", C09_NoDuplicateLive'>>,
                                               <<"C07_no_early_start", C07_NoEarlyStart'>>,
                                               <<"C18_hash_never_ahead", C18_HashNeverAhead'>>} : ~x[2]}}
Judge(cl) == /\ bad' = bad \cup NewBad(cl)
             /\ first' = IF first = 0 /\ NewBad(cl) # {} THEN l ELSE first
             /\ hits' = hits \cup {c[1] : c \in {x \in cl : Len(x) = 2 \/ x[3]}}
             /\ halt' = FALSE
             /\ l' = l + 1
StuckSet(names) == /\ bad' = bad \cup names /\ halt' = TRUE /\ first' = IF first = 0 THEN l ELSE first
                   /\ l' = l + 1 /\ UNCHANGED <<vars, dr, hits>>
(* a run that began while no job was pending or running must submit exactly the stale part of the cone (C06) *)
PlanBroken == {"C02_set"} \cup (IF conv.ok THEN {"C06_rerun_exact"} ELSE {})
Stuck(name) == /\ bad' = bad \cup {name} /\ halt' = TRUE /\ first' = IF first = 0 THEN l ELSE first
               /\ l' = l + 1 /\ UNCHANGED <<vars, dr, hits>>

TraceInit ==
  /\ tid \in 1..Len(Batch)
  /\ l = 2 /\ bad = {} /\ dr = FALSE /\ hits = {} /\ halt = FALSE /\ first = 0
  /\ LET e == Batch[tid].events[1] IN
     /\ w = [T |-> S(e.w.T), in |-> [t \in S(e.w.T) |-> S(e.w.in[t])],
             out |-> [t \in S(e.w.T) |-> S(e.w.out[t])], prot |-> [t \in S(e.w.T) |-> S(e.w.prot[t])]]
     /\ fs = [f \in AllIn(w) \cup AllOut(w) |-> e.fs[f]]
     /\ useHash = e.useHash
  /\ specv = [t \in w.T |-> 0]
  /\ clock = 1
  /\ jobs = << >>
  /\ trk = [t \in w.T |-> NoJob]
  /\ hsh = [t \in w.T |-> NoRec]
  /\ gp = [pc |-> "idle", sel |-> {}, b |-> [t \in w.T |-> "U"], todo |-> {}, plan |-> {},
           mtrk |-> [t \in w.T |-> NoJob], mhsh |-> [t \in w.T |-> NoRec], hashing |-> FALSE,
           fs0 |-> [f \in AllIn(w) \cup AllOut(w) |-> Missing]]
  /\ conv = [ok |-> FALSE, sel |-> {}, shelf |-> [t \in w.T |-> [away |-> FALSE, trk |-> NoJob, hsh |-> NoRec]]]
  /\ cnt = [env |-> 0, faults |-> 0, cmds |-> 0]
  /\ hist = << >>

---------------------------------------------------------------------------
Shown(sel) == IF sel = {} THEN T ELSE sel

TStatus ==
  /\ Ev.act = "Status" /\ Status(S(Ev.sel)) /\ dr' = dr
  /\ Judge({
      <<"C05_table", Ev.exit = 0 /\ DOMAIN Ev.table = Shown(S(Ev.sel)) /\ \A t \in Shown(S(Ev.sel)) : Ev.table[t] = Table[t]>>,
      <<"C08_state", Ev.exit = 0 /\ \A t \in Shown(S(Ev.sel)) \cap DOMAIN Ev.table :
                         Snap[t] \in {"S", "R", "X", "K"} => Ev.table[t] = Table[t],
                    \E t \in Shown(S(Ev.sel)) : Snap[t] \in {"S", "R", "X", "K"}>>,
      (* a tracked job the scheduler has no record of any more (purged, or of an earlier pool): the file-based *)
      (* decision, never the state of some other job                                                          *)
      <<"C08_gone_job_falls_back", Ev.exit = 0 /\ \A t \in Shown(S(Ev.sel)) \cap DOMAIN Ev.table :
                         (trk[t] # NoJob /\ jobs[trk[t]].gone) => Ev.table[t] = Table[t],
                    \E t \in Shown(S(Ev.sel)) : trk[t] # NoJob /\ jobs[trk[t]].gone>>,
      <<"C06_all_completed", (Drained /\ Ev.exit = 0) =>
            \A t \in Cone(W3, conv.sel) \cap Shown(S(Ev.sel)) \cap DOMAIN Ev.table : w.out[t] # {} => Ev.table[t] = "completed",
            Drained /\ \E j \in JobIds : jobs[j].st = "OK">>,
      <<"C05_status_pure", Ev.pure /\ After(Ev, trk, hsh, fs) = <<TRUE, TRUE, TRUE>> >>,
      <<"C18_unchanged_otherwise", EqT(Ev.after.hsh, hsh)>>,
      (* C17: once the scheduler has carried out a cancellation the target is not shown as submitted or running *)
      <<"C17_not_live_after_cancel", Ev.exit = 0 /\ \A t \in Shown(S(Ev.sel)) \cap DOMAIN Ev.table :
                                (trk[t] # NoJob /\ jobs[trk[t]].st = "CA") => Ev.table[t] \notin {"submitted", "running"},
                            \E t \in Shown(S(Ev.sel)) : trk[t] # NoJob /\ jobs[trk[t]].st = "CA">>,
      (* with hashing on, a target without a record, or whose spec differs from the record, is stale *)
      <<"C18_stale_by_hash", Ev.exit = 0 /\ \A t \in Shown(S(Ev.sel)) \cap DOMAIN Ev.table :
                                (useHash /\ hsh[t] # specv[t] /\ Snap[t] \in {"U", "C"}) => Ev.table[t] = "shouldrun",
                            useHash /\ \E t \in Shown(S(Ev.sel)) : hsh[t] # specv[t] /\ Snap[t] \in {"U", "C"}>>,
      <<"C08_no_sacct_when_disabled", Backend = "slurm_noacct" => ~Ev.sacct_called>> })

TDryRun ==
  /\ Ev.act = "DryRun" /\ DryRun(S(Ev.sel)) /\ dr' = dr
  /\ Judge({
      <<"C05_agree_dry", Ev.exit = 0 /\ S(Ev.dry) = ToSubmit(W3, fs, Hok, Snap, EffSel(S(Ev.sel)))
                           /\ Len(Ev.dry) = Cardinality(S(Ev.dry))>>,
      <<"C05_dryrun_pure", Ev.pure /\ After(Ev, trk, hsh, fs) = <<TRUE, TRUE, TRUE>> >>,
      (* C18: a spec that differs from its record makes the target stale for the preview as for status and run *)
      <<"C18_stale_by_hash", LET plan == ToSubmit(W3, fs, Hok, Snap, EffSel(S(Ev.sel))) IN
                             Ev.exit = 0 /\ \A t \in plan : (useHash /\ hsh[t] # specv[t]) => t \in S(Ev.dry),
                            useHash /\ \E t \in ToSubmit(W3, fs, Hok, Snap, EffSel(S(Ev.sel))) : hsh[t] # specv[t]>>,
      <<"C18_unchanged_otherwise", EqT(Ev.after.hsh, hsh)>> })

TRunBegin ==
  /\ Ev.act = "RunBegin" /\ RunBegin(S(Ev.sel))
  /\ dr' = (Drained /\ EffSel(S(Ev.sel)) \subseteq Cone(W3, conv.sel))
  /\ Judge({})

OldHold(t) == {h \in HoldFor(t) : jobs[h].tgt \notin gp.plan}
TRunSubmit ==
  /\ Ev.act = "RunSubmit"
  /\ IF gp.pc # "run" \/ Ev.t \notin gp.plan THEN StuckSet(PlanBroken)
     ELSE IF Ev.t \notin gp.todo THEN Stuck("C02_once")
     ELSE IF RunPrereq(Ev.t) \cap gp.todo # {} THEN Stuck("C02_order")
     ELSE /\ RunSubmitH(Ev.t, {h \in S(Ev.hold) : h \in JobIds}) /\ dr' = dr
          /\ Judge({
              <<"C02_prereq", S(Ev.hold) = HoldFor(Ev.t) /\ Len(Ev.hold) = Cardinality(S(Ev.hold))>>,
              <<"C07_hold", S(Ev.hold) = HoldFor(Ev.t) /\ Len(Ev.hold) = Cardinality(S(Ev.hold))
                              /\ Ev.kind = (IF HoldFor(Ev.t) = {} THEN "none"
                                            ELSE CASE Backend \in {"slurm", "slurm_noacct"} -> "afterok"
                                                   [] Backend = "sge" -> "hold_jid" [] Backend = "lsf" -> "done"
                                                   [] OTHER -> "local"),
                HoldFor(Ev.t) # {}>>,
              <<"C08_id_issued", Ev.id = Len(jobs) + 1>>,
              (* C09: after an interruption, the remaining targets are held behind the jobs accepted earlier  *)
              (* (the jobs of dependencies that are not part of this run's own plan)                          *)
              <<"C09_resume_prereq", {h \in S(Ev.hold) \cap JobIds : jobs[h].tgt \notin gp.plan} = OldHold(Ev.t),
                cnt.faults > 0 /\ OldHold(Ev.t) # {}>>,
              <<"C06_rerun_noop", dr => w.out[Ev.t] = {}, dr>> })

EndClauses(e) == {
  <<"C09_tracked", EqT(e.after.trk, trk') /\ e.trk_ok>>,
  <<"C08_id_roundtrip", EqT(e.after.trk, trk')>>,
  <<"C09_readable", e.trk_ok /\ e.hsh_ok>>,
  <<"C18_record_on_accept", EqT(e.after.hsh, hsh'), hsh' # hsh>>,
  <<"C09_hash_only_if_accepted", \A t \in T : e.after.hsh[t] # hsh[t] => gp.mhsh[t] # hsh[t]>>,
  <<"C18_disabled_untouched", ~gp.hashing => EqT(e.after.hsh, hsh)>>,
  <<"C05_files_untouched", EqF(e.after.fs, fs)>> }

TRunEnd ==
  /\ Ev.act = "RunEnd"
  /\ IF gp.pc # "run" \/ gp.todo # {} THEN StuckSet(PlanBroken)
     ELSE /\ RunEnd /\ dr' = FALSE
          /\ Judge(EndClauses(Ev) \cup {<<"C02_exit", Ev.exit = 0>>,
                                         <<"C06_rerun_noop", dr => \A t \in gp.plan : w.out[t] = {}, dr>>})

TRunReject ==
  /\ Ev.act = "RunReject"
  /\ IF gp.pc # "run" \/ Ev.t \notin gp.plan THEN Stuck("C02_set")
     ELSE IF Ev.t \notin gp.todo THEN Stuck("C02_once")
     ELSE IF RunPrereq(Ev.t) \cap gp.todo # {} THEN Stuck("C02_order")
     ELSE /\ RunReject(Ev.t) /\ dr' = FALSE
          /\ Judge(EndClauses(Ev) \cup {<<"C09_reports_failure", Ev.exit # 0>>})

TCrash ==
  /\ Ev.act = "Crash"
  /\ IF gp.pc # "run" THEN Stuck("C09_crash_outside_run")
     ELSE /\ Crash /\ dr' = FALSE
          /\ Judge({
              <<"C09_tracked", EqT(Ev.after.trk, trk') /\ Ev.trk_ok>>,
              <<"C09_readable", Ev.trk_ok /\ Ev.hsh_ok>>,
              <<"C09_hash_only_if_accepted", \A t \in T : Ev.after.hsh[t] # hsh[t] => gp.mhsh[t] # hsh[t]>> })

(* killed inside a state-file write: each file must be readable and hold its old or its new content *)
TCrashWrite ==
  /\ Ev.act = "CrashWrite"
  /\ IF gp.pc # "run" \/ gp.todo # {} THEN Stuck("C02_set")
     ELSE /\ gp' = IdleGp /\ dr' = FALSE
          (* the state goes on from what is on disk (either content is legal); a value that is neither - an id the *)
          (* scheduler never issued, an unknown hash - fails C09_write_atomic and is replaced by the new content   *)
          /\ trk' = [t \in T |-> IF Ev.after.trk[t] \in JobIds \cup {NoJob} THEN Ev.after.trk[t] ELSE gp.mtrk[t]]
          /\ hsh' = [t \in T |-> IF Ev.after.hsh[t] \in NoRec..specv[t] THEN Ev.after.hsh[t] ELSE gp.mhsh[t]]
          /\ Disturb /\ Bump("faults")
          /\ UNCHANGED <<w, specv, fs, clock, jobs, useHash>>
          /\ Log("CrashWrite", [file |-> Ev.file])
          /\ Judge({
              <<"C09_readable", Ev.trk_ok /\ Ev.hsh_ok>>,
              <<"C09_write_atomic", /\ EqT(Ev.after.trk, gp.mtrk)
                                    /\ EqT(Ev.after.hsh, hsh) \/ EqT(Ev.after.hsh, gp.mhsh)>>,
              <<"C09_tracked", EqT(Ev.after.trk, gp.mtrk), Ev.trk_ok>> })

TQueryFail ==
  /\ Ev.act = "QueryFail" /\ QueryFail(S(Ev.sel)) /\ dr' = dr
  /\ Judge({
      <<"C09_reports_failure", Ev.exit # 0>>,
      <<"C09_readable", Ev.trk_ok /\ Ev.hsh_ok>>,
      <<"C09_query_fail_noop", Ev.pure /\ After(Ev, trk, hsh, fs) = <<TRUE, TRUE, TRUE>> >>,
      <<"C08_no_sacct_when_disabled", Backend = "slurm_noacct" => ~Ev.sacct_called>> })

(* touch: the new file system is taken from the observation (gwf uses the real clock; the  *)
(* driver re-pins the touched files to logical times preserving their observed order) and *)
(* must satisfy the touch relation *)
TTouch ==
  /\ Ev.act = "Touch" /\ Idle /\ dr' = FALSE
  /\ LET sel == S(Ev.sel)
         fs2 == [f \in Files |-> Ev.after.fs[f]] IN
     /\ fs' = fs2
     /\ clock' = Max({clock} \cup {fs2[f] : f \in Files})
     /\ hsh' = TouchHashes(sel)
     /\ Disturb /\ Bump("cmds")
     /\ UNCHANGED <<w, specv, jobs, trk, useHash, gp>>
     /\ Log("Touch", [sel |-> sel])
     /\ Judge({
          <<"C16_exit", Ev.exit = 0>>,
          <<"C16_cone_only", TouchKeeps(sel, fs, fs2) /\ Ev.others_ok>>,
          <<"C16_present", \A f \in TouchedFiles(sel) : fs2[f] # Missing>>,
          <<"C16_order", TouchOrder(sel, fs, fs2), \E t \in TouchCone(sel) : w.in[t] \cap TouchedFiles(sel) # {}>>,
          <<"C16_fresh", \A f \in TouchedFiles(sel) : fs2[f] # Missing => fs2[f] > clock>>,
          <<"C16_content", Ev.content_ok>>,
          <<"C16_hashes", EqT(Ev.after.hsh, TouchHashes(sel))>>,
          <<"C18_touch", EqT(Ev.after.hsh, TouchHashes(sel))>>,
          <<"C16_tracked_untouched", EqT(Ev.after.trk, trk)>> })

TClean ==
  /\ Ev.act = "Clean" /\ dr' = FALSE
  /\ LET sel == S(Ev.sel) IN
     IF Ev.declined
     THEN /\ Declined("Clean")
          /\ Judge({<<"C15_declined_noop", Ev.pure /\ After(Ev, trk, hsh, fs) = <<TRUE, TRUE, TRUE>> >>,
                    <<"C18_unchanged_otherwise", EqT(Ev.after.hsh, hsh)>>})
     ELSE /\ Clean(sel, Ev.all)
          /\ Judge({
               <<"C15_exit", Ev.exit = 0>>,
               <<"C15_only", (\A f \in Files : Ev.after.fs[f] # fs[f] => f \in CleanRemoved(sel, Ev.all)) /\ Ev.others_ok>>,
               <<"C15_all", \A f \in CleanRemoved(sel, Ev.all) : Ev.after.fs[f] = Missing,
                            \E f \in CleanRemoved(sel, Ev.all) : fs[f] # Missing>>,
               <<"C15_hashes", EqT(Ev.after.hsh, CleanHashes(sel, Ev.all))>>,
               <<"C18_clean", EqT(Ev.after.hsh, CleanHashes(sel, Ev.all))>>,
               <<"C15_tracked_untouched", EqT(Ev.after.trk, trk)>> })

TCancel ==
  /\ Ev.act = "Cancel" /\ dr' = FALSE
  /\ LET sel == S(Ev.sel) IN
     IF Ev.declined
     THEN /\ Declined("Cancel")
          /\ Judge({<<"C17_declined_noop", Len(Ev.reqs) = 0 /\ Ev.pure>>,
                    <<"C18_unchanged_otherwise", EqT(Ev.after.hsh, hsh)>>})
     ELSE IF ~(S(Ev.refused) \subseteq CancelRequests(sel)) THEN Stuck("C00_driver_refused_unknown_id")
     ELSE /\ Cancel(sel, S(Ev.refused))
          /\ Judge({
               <<"C17_exact", S(Ev.reqs) = CancelRequests(sel) /\ Len(Ev.reqs) = Cardinality(S(Ev.reqs)),
                              \E j \in CancelRequests(sel) : LiveJob(j)>>,
               (* a live job shown with a code gwf cannot classify is still the target's most recent job *)
               <<"C17_stuck_job_cancelled", {j \in CancelRequests(sel) : jobs[j].st = "E"} \subseteq S(Ev.reqs),
                              \E j \in CancelRequests(sel) : jobs[j].st = "E">>,
               <<"C17_continue_after_failure", CancelRequests(sel) \subseteq S(Ev.reqs),
                              S(Ev.refused) # {} /\ Cardinality(CancelRequests(sel)) > 1>>,
               <<"C17_reported", S(Ev.reported) = {t \in CancelTargets(sel) : trk[t] = NoJob \/ trk[t] \in S(Ev.refused)}>>,
               <<"C17_state_untouched", After(Ev, trk, hsh, fs) = <<TRUE, TRUE, TRUE>> >> })

(* environment and scheduler steps are imposed by the driver: no observation *)
TEnv ==
  /\ Ev.act \in {"EditSource", "DeleteOutput", "EditSpec", "SetUseHash", "Rename", "RenameBack"}
  /\ IF \/ Ev.act = "EditSource" /\ ~(Ev.f \in Unresolved(W3) /\ fs[Ev.f] # Missing)
        \/ Ev.act = "DeleteOutput" /\ ~(Ev.f \in AllOut(W3) /\ fs[Ev.f] # Missing)
        \/ Ev.act = "SetUseHash" /\ Ev.v = useHash
        \/ Ev.act = "Rename" /\ conv.shelf[Ev.t].away
        \/ Ev.act = "RenameBack" /\ ~conv.shelf[Ev.t].away
     THEN Stuck("C00_env_inapplicable")
     ELSE /\ dr' = FALSE
          /\ \/ Ev.act = "EditSource" /\ EditSource(Ev.f)
             \/ Ev.act = "DeleteOutput" /\ DeleteOutput(Ev.f)
             \/ Ev.act = "EditSpec" /\ EditSpec(Ev.t)
             \/ Ev.act = "Rename" /\ Rename(Ev.t)
             \/ Ev.act = "RenameBack" /\ RenameBack(Ev.t)
             \/ Ev.act = "SetUseHash" /\ SetUseHash(Ev.v)
          /\ Judge({})

TSched ==
  /\ Ev.act \in {"JobStart", "JobEnd", "Purge", "JobInherit", "JobStick", "JobUnstick"} /\ dr' = dr
  /\ IF Ev.j \notin JobIds THEN Stuck("C00_schedule_inapplicable")
     ELSE \/ Ev.act = "JobStart" /\ IF CanStart(Ev.j) THEN JobStart(Ev.j) /\ Judge({}) ELSE Stuck("C00_schedule_inapplicable")
          \/ Ev.act = "JobEnd" /\ IF jobs[Ev.j].st = "R" THEN JobEnd(Ev.j, Ev.ok, Ev.tie) /\ Judge({}) ELSE Stuck("C00_schedule_inapplicable")
          \/ Ev.act = "Purge" /\ IF Finished(Ev.j) /\ ~jobs[Ev.j].gone THEN Purge(Ev.j) /\ Judge({}) ELSE Stuck("C00_schedule_inapplicable")
          \/ Ev.act = "JobStick" /\ IF jobs[Ev.j].st = "PD" /\ ~jobs[Ev.j].gone THEN JobStick(Ev.j) /\ Judge({}) ELSE Stuck("C00_schedule_inapplicable")
          \/ Ev.act = "JobUnstick" /\ IF jobs[Ev.j].st = "E" THEN JobUnstick(Ev.j) /\ Judge({}) ELSE Stuck("C00_schedule_inapplicable")
          (* observed in the real pool: a held task ended without running; legal only as JobInherit *)
          \/ Ev.act = "JobInherit" /\ IF ENABLED JobInherit(Ev.j) /\ (\E k \in jobs[Ev.j].hold : jobs[k].st = Ev.st)
                                      THEN JobInherit(Ev.j) /\ jobs'[Ev.j].st = Ev.st /\ Judge({})
                                      ELSE Stuck("C07_never_after_failure")

(* a job ended although neither the scheduler model nor a cancel request of gwf ended it *)
TVanished == Ev.act = "JobVanished" /\ Stuck(IF Ev.st = "CANCELLED" THEN "C17_no_other_target" ELSE "C13_unexplained_end")

TPoolRestart == Ev.act = "PoolRestart" /\ PoolRestart /\ dr' = FALSE /\ Judge({})

TraceNext ==
  /\ ~halt /\ l <= Len(Events)
  /\ tid' = tid
  /\ \/ TStatus \/ TDryRun \/ TRunBegin \/ TRunSubmit \/ TRunEnd \/ TRunReject \/ TCrash \/ TCrashWrite \/ TQueryFail
     \/ TTouch \/ TClean \/ TCancel \/ TEnv \/ TSched \/ TPoolRestart \/ TVanished

TraceSpec == TraceInit /\ [][TraceNext]_tvars

(* printed once per trace: at its first failing step, or when it has been consumed completely *)
Verdict ==
  \/ ~halt /\ l <= Len(Events)
  \/ PrintT(ToJson([id |-> Batch[tid].id, failed |-> bad, hits |-> hits, step |-> IF first = 0 THEN l - 1 ELSE first, len |-> Len(Events),
                    act |-> IF first >= 1 /\ first <= Len(Events) THEN Events[first].act
                            ELSE IF l - 1 >= 1 /\ l - 1 <= Len(Events) THEN Events[l - 1].act ELSE "end"]))

=============================================================================
