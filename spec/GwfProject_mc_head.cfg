SPECIFICATION Spec
VIEW View1
INVARIANT TypeOK
INVARIANT C09_NoDuplicateLive
INVARIANT C09_LiveJobsTracked
INVARIANT C07_NoEarlyStart
INVARIANT C07_HoldCoversNeeds
INVARIANT C07_HoldIsNeeds
INVARIANT C06_Converged
INVARIANT C18_HashNeverAhead
INVARIANT C16_CanonOK
PROPERTY P_HashChange
PROPERTY P_PreviewPure
PROPERTY P_RunOutside
PROPERTY P_CancelAfter
CHECK_DEADLOCK FALSE
