------------------------------ MODULE LocalPool ------------------------------
(***************************************************************************)
(* The local worker pool of gwf (backends/local.py): a scheduler of shell  *)
(* tasks with dependencies on earlier tasks, a bounded number of cores,    *)
(* optional time limits and cancellation, at the granularity of the await  *)
(* points of the implementation:                                           *)
(*                                                                         *)
(*   waitdeps  - waiting for all dependency tasks to finish                *)
(*   waitcore  - waiting for a core token                                  *)
(*   running   - holds a core, child process started                       *)
(*   killing   - time limit hit or cancelled while running: the process    *)
(*               was killed, the task sleeps one second before it ends     *)
(*               (still holding its core)                                  *)
(*   done      - final                                                     *)
(*                                                                         *)
(* External actions (injected by the environment / the clients): Enqueue,  *)
(* ProcExit, Cancel, Tick.  Internal actions: DepsDone, Acquire, Spawn,    *)
(* Finish, TimeOut, KillDone.  The state table st is what get_task_states  *)
(* returns.  Properties: C11 (start only after dependencies completed),    *)
(* C12 (core bound, work conservation), C13 (final state matches cause,    *)
(* stable, every task ends).                                               *)
(***************************************************************************)
EXTENDS Integers, Sequences, FiniteSets, FiniteSetsExt, TLC

CONSTANTS Cores,      \* number of workers
          MaxTasks,   \* tasks are numbered 0..MaxTasks-1 in order of acceptance
          Limits,     \* time limits a task may be given (0 = none)
          MaxNow,     \* bound on the clock for model checking
          Attrs       \* per-task attribute sets drawn from {"startfails", "logfails"}

Final    == {"COMPLETED", "FAILED", "CANCELLED", "KILLED"}
NoTime   == -1

VARIABLES
  n,        \* number of accepted tasks; their ids are 0..n-1
  pc,       \* [id -> program counter]
  st,       \* [id -> state table entry]
  deps,     \* [id -> set of ids]
  limit,    \* [id -> time limit or 0]
  attr,     \* [id -> set of attributes]
  held,     \* [id -> BOOLEAN]  owns a core token
  proc,     \* [id -> "none" | "alive" | "exited"]
  rc,       \* [id -> exit code of the process]
  timer,    \* [id -> deadline of the task's pending timer or NoTime]
  outcome,  \* [id -> what the kill sequence will record: "KILLED" | "CANCELLED"]
  cause,    \* history: [id -> why the task ended]
  started,  \* history: sequence of ids whose process was spawned
  free,     \* available core tokens
  now       \* the clock

vars == <<n, pc, st, deps, limit, attr, held, proc, rc, timer, outcome, cause, started, free, now>>

Ids == 0..(n - 1)
Ext(f, v) == [i \in 0..n |-> IF i = n THEN v ELSE f[i]]   \* extend a per-task function by the new task

Init ==
  /\ n = 0 /\ pc = << >> /\ st = << >> /\ deps = << >> /\ limit = << >> /\ attr = << >>
  /\ held = << >> /\ proc = << >> /\ rc = << >> /\ timer = << >> /\ outcome = << >> /\ cause = << >>
  /\ started = << >> /\ free = Cores /\ now = 0

---------------------------------------------------------------------------
(* external actions *)

(* attribute "baddeps": the request names dependencies that do not exist (or is otherwise  *)
(* unusable): the task is accepted, gets an id, and fails at once without ever starting   *)
Enqueue(ds, lim, at) ==
  /\ n < MaxTasks /\ ds \subseteq Ids /\ ("baddeps" \in at => ds = {})
  /\ pc' = Ext(pc, IF "baddeps" \in at THEN "done" ELSE IF ds = {} THEN "waitcore" ELSE "waitdeps")
  /\ st' = Ext(st, IF "baddeps" \in at THEN "FAILED" ELSE "SUBMITTED")
  /\ deps' = Ext(deps, ds) /\ limit' = Ext(limit, lim) /\ attr' = Ext(attr, at)
  /\ held' = Ext(held, FALSE) /\ proc' = Ext(proc, "none") /\ rc' = Ext(rc, 0)
  /\ timer' = Ext(timer, NoTime) /\ outcome' = Ext(outcome, "none")
  /\ cause' = Ext(cause, IF "baddeps" \in at THEN "startfailed" ELSE "none")
  /\ n' = n + 1
  /\ UNCHANGED <<started, free, now>>

(* the child process of t ends by itself with exit code c *)
ProcExit(t, c) ==
  /\ t \in Ids /\ proc[t] = "alive" /\ pc[t] = "running"
  /\ proc' = [proc EXCEPT ![t] = "exited"] /\ rc' = [rc EXCEPT ![t] = c]
  /\ UNCHANGED <<n, pc, st, deps, limit, attr, held, timer, outcome, cause, started, free, now>>

(* a cancel request for t; a no-op unless t is SUBMITTED or RUNNING in the table *)
Cancel(t) ==
  /\ t \in Ids
  /\ IF st[t] \notin {"SUBMITTED", "RUNNING"} THEN UNCHANGED vars
     ELSE /\ st' = [st EXCEPT ![t] = "CANCELLED"]
          /\ cause' = [cause EXCEPT ![t] = IF pc[t] = "killing" /\ outcome[t] = "KILLED" THEN "cancel-during-kill" ELSE "cancelled"]
          /\ CASE pc[t] \in {"waitdeps", "waitcore"} ->
                    /\ pc' = [pc EXCEPT ![t] = "done"]
                    /\ UNCHANGED <<held, proc, rc, timer, outcome, free>>
               [] pc[t] = "spawning" ->         \* holds a core, no process yet
                    /\ pc' = [pc EXCEPT ![t] = "done"]
                    /\ held' = [held EXCEPT ![t] = FALSE] /\ free' = free + 1
                    /\ UNCHANGED <<proc, rc, timer, outcome>>
               [] pc[t] = "running" ->          \* kill the process, hold the core for the grace second
                    /\ pc' = [pc EXCEPT ![t] = "killing"]
                    /\ proc' = [proc EXCEPT ![t] = "exited"]
                    /\ rc' = [rc EXCEPT ![t] = IF proc[t] = "alive" THEN -9 ELSE rc[t]]
                    /\ timer' = [timer EXCEPT ![t] = now + 1]
                    /\ outcome' = [outcome EXCEPT ![t] = "CANCELLED"]
                    /\ UNCHANGED <<held, free>>
               [] pc[t] = "killing" ->          \* cancelled during the grace second of a time-out: ends at once
                    /\ pc' = [pc EXCEPT ![t] = "done"]
                    /\ held' = [held EXCEPT ![t] = FALSE] /\ free' = free + 1
                    /\ timer' = [timer EXCEPT ![t] = NoTime]
                    /\ UNCHANGED <<proc, rc, outcome>>
          /\ UNCHANGED <<n, deps, limit, attr, started, now>>

Timers == {timer[t] : t \in {u \in Ids : timer[u] # NoTime}}
Tick ==
  /\ Timers # {} /\ Min(Timers) > now /\ Min(Timers) <= MaxNow
  /\ now' = Min(Timers)
  /\ UNCHANGED <<n, pc, st, deps, limit, attr, held, proc, rc, timer, outcome, cause, started, free>>

---------------------------------------------------------------------------
(* internal actions *)

(* all dependencies have ended: go on, or inherit the state of one that did not complete *)
DepsDone(t) ==
  /\ pc[t] = "waitdeps" /\ \A d \in deps[t] : pc[d] = "done"
  /\ LET bad == {d \in deps[t] : st[d] # "COMPLETED"} IN
     IF bad = {} THEN /\ pc' = [pc EXCEPT ![t] = "waitcore"] /\ UNCHANGED <<st, cause>>
     ELSE \E d \in bad : /\ st' = [st EXCEPT ![t] = st[d]]
                         /\ pc' = [pc EXCEPT ![t] = "done"]
                         /\ cause' = [cause EXCEPT ![t] = "dep:" \o st[d]]
  /\ UNCHANGED <<n, deps, limit, attr, held, proc, rc, timer, outcome, started, free, now>>

(* any task waiting for a core may take a free one *)
Acquire(t) ==
  /\ pc[t] = "waitcore" /\ free > 0
  /\ free' = free - 1 /\ held' = [held EXCEPT ![t] = TRUE]
  /\ st' = [st EXCEPT ![t] = "RUNNING"] /\ pc' = [pc EXCEPT ![t] = "spawning"]
  /\ UNCHANGED <<n, deps, limit, attr, proc, rc, timer, outcome, cause, started, now>>

(* attribute "badlimit": the request is unusable in a way that shows only after the process *)
(* was started (e.g. a time limit that is not a number): the process is killed at once and *)
(* the task ends FAILED after the grace second                                             *)
Spawn(t) ==
  /\ pc[t] = "spawning"
  /\ IF "badlimit" \in attr[t]
     THEN /\ proc' = [proc EXCEPT ![t] = "exited"] /\ pc' = [pc EXCEPT ![t] = "killing"]
          /\ started' = Append(started, t)
          /\ timer' = [timer EXCEPT ![t] = now + 1]
          /\ UNCHANGED <<st, cause, held, free>>
     ELSE IF "startfails" \in attr[t]
     THEN /\ st' = [st EXCEPT ![t] = "FAILED"] /\ pc' = [pc EXCEPT ![t] = "done"]
          /\ cause' = [cause EXCEPT ![t] = "startfailed"]
          /\ held' = [held EXCEPT ![t] = FALSE] /\ free' = free + 1
          /\ UNCHANGED <<proc, timer, started>>
     ELSE /\ proc' = [proc EXCEPT ![t] = "alive"] /\ pc' = [pc EXCEPT ![t] = "running"]
          /\ started' = Append(started, t)
          /\ timer' = [timer EXCEPT ![t] = IF limit[t] > 0 THEN now + limit[t] ELSE NoTime]
          /\ UNCHANGED <<st, cause, held, free>>
  /\ outcome' = [outcome EXCEPT ![t] = IF "badlimit" \in attr[t] THEN "FAILED" ELSE @]
  /\ rc' = [rc EXCEPT ![t] = IF "badlimit" \in attr[t] THEN -9 ELSE @]
  /\ UNCHANGED <<n, deps, limit, attr, now>>

(* the process has ended by itself: write the logs, record the result, give the core back *)
Finish(t) ==
  /\ pc[t] = "running" /\ proc[t] = "exited"
  /\ LET res == IF "logfails" \in attr[t] \/ rc[t] # 0 THEN "FAILED" ELSE "COMPLETED" IN
     /\ st' = [st EXCEPT ![t] = res]
     /\ cause' = [cause EXCEPT ![t] = IF "logfails" \in attr[t] THEN "logfailed" ELSE IF rc[t] = 0 THEN "exit0" ELSE "exitN"]
  /\ pc' = [pc EXCEPT ![t] = "done"] /\ timer' = [timer EXCEPT ![t] = NoTime]
  /\ held' = [held EXCEPT ![t] = FALSE] /\ free' = free + 1
  /\ UNCHANGED <<n, deps, limit, attr, proc, rc, outcome, started, now>>

(* the time limit passed while the process was still running *)
TimeOut(t) ==
  /\ pc[t] = "running" /\ proc[t] = "alive" /\ timer[t] # NoTime /\ timer[t] <= now
  /\ pc' = [pc EXCEPT ![t] = "killing"] /\ outcome' = [outcome EXCEPT ![t] = "KILLED"]
  /\ proc' = [proc EXCEPT ![t] = "exited"] /\ rc' = [rc EXCEPT ![t] = -9]
  /\ timer' = [timer EXCEPT ![t] = now + 1]
  /\ UNCHANGED <<n, st, deps, limit, attr, held, cause, started, free, now>>

KillDone(t) ==
  /\ pc[t] = "killing" /\ timer[t] <= now
  /\ st' = [st EXCEPT ![t] = outcome[t]]
  /\ cause' = [cause EXCEPT ![t] = IF outcome[t] = "KILLED" THEN "timeout"
                                   ELSE IF outcome[t] = "FAILED" THEN "badrequest" ELSE cause[t]]
  /\ pc' = [pc EXCEPT ![t] = "done"] /\ timer' = [timer EXCEPT ![t] = NoTime]
  /\ held' = [held EXCEPT ![t] = FALSE] /\ free' = free + 1
  /\ UNCHANGED <<n, deps, limit, attr, proc, rc, outcome, started, now>>

Internal(t) == DepsDone(t) \/ Acquire(t) \/ Spawn(t) \/ Finish(t) \/ TimeOut(t) \/ KillDone(t)

InternalEnabled(t) ==
  \/ pc[t] = "waitdeps" /\ \A d \in deps[t] : pc[d] = "done"
  \/ pc[t] = "waitcore" /\ free > 0
  \/ pc[t] = "spawning"
  \/ pc[t] = "running" /\ proc[t] = "exited"
  \/ pc[t] = "running" /\ proc[t] = "alive" /\ timer[t] # NoTime /\ timer[t] <= now
  \/ pc[t] = "killing" /\ timer[t] <= now
Quiescent == \A t \in Ids : ~InternalEnabled(t)

Next ==
  \/ \E ds \in SUBSET Ids, lim \in Limits, at \in Attrs : Enqueue(ds, lim, at)
  \/ \E t \in Ids : Internal(t) \/ Cancel(t) \/ \E c \in {0, 1} : ProcExit(t, c)
  \/ Tick

Spec == Init /\ [][Next]_vars
Fairness == /\ \A t \in 0..(MaxTasks - 1) : WF_vars(t \in Ids /\ Internal(t))
            /\ \A t \in 0..(MaxTasks - 1) : WF_vars(t \in Ids /\ ProcExit(t, 0))
            /\ WF_vars(Tick)
LiveSpec == Spec /\ Fairness

---------------------------------------------------------------------------
(* properties *)

Alive == {t \in Ids : proc[t] = "alive"}

C12_CoreBound == /\ Cardinality(Alive) <= Cores
                 /\ free >= 0 /\ free + Cardinality({t \in Ids : held[t]}) = Cores
                 /\ \A t \in Ids : proc[t] = "alive" => held[t]
C12_WorkConserving == (Quiescent /\ free > 0) => \A t \in Ids : pc[t] # "waitcore"

C11_StartOnlyAfterDepsOK ==
  \A k \in DOMAIN started : \A d \in deps[started[k]] : pc[d] = "done" /\ st[d] = "COMPLETED"
WasStarted(t) == \E k \in DOMAIN started : started[k] = t
C11_Inherit ==
  \A t \in Ids : (pc[t] = "done" /\ \E d \in deps[t] : pc[d] = "done" /\ st[d] # "COMPLETED") =>
      /\ ~WasStarted(t)
      /\ st[t] \in {st[d] : d \in {x \in deps[t] : st[x] # "COMPLETED"}} \cup {"CANCELLED"}

C13_FinalMatches ==
  \A t \in Ids : pc[t] = "done" =>
     CASE cause[t] = "exit0"       -> st[t] = "COMPLETED" /\ WasStarted(t) /\ rc[t] = 0
       [] cause[t] = "exitN"       -> st[t] = "FAILED"
       [] cause[t] = "startfailed" -> st[t] = "FAILED" /\ ~WasStarted(t)
       [] cause[t] = "logfailed"   -> st[t] = "FAILED"
       [] cause[t] = "timeout"     -> st[t] = "KILLED"
       [] cause[t] = "badrequest"  -> st[t] = "FAILED"
       [] cause[t] \in {"cancelled", "cancel-during-kill"} -> st[t] = "CANCELLED"
       [] OTHER                    -> st[t] \in Final \ {"COMPLETED"}      \* inherited from a dependency
C13_DoneIsFinal   == \A t \in Ids : (pc[t] = "done" <=> st[t] \in Final) \/ (st[t] = "CANCELLED" /\ pc[t] = "killing")
C13_CompletedIff  == \A t \in Ids : st[t] = "COMPLETED" <=> (pc[t] = "done" /\ cause[t] = "exit0")
C13_NoRerun       == \A i, j \in DOMAIN started : i # j => started[i] # started[j]
C13_NoOrphans     == \A t \in Ids : pc[t] = "done" => proc[t] # "alive"
A_Stable          == \A t \in Ids : pc[t] = "done" => (st'[t] = st[t] /\ pc'[t] = "done")
C13_Stable        == [][A_Stable]_vars
C13_Live          == \A t \in 0..(MaxTasks - 1) : [](t \in Ids => <>(t \in Ids /\ pc[t] = "done"))

TypeOK == /\ n \in 0..MaxTasks /\ free \in 0..Cores
          /\ \A t \in Ids : pc[t] \in {"waitdeps", "waitcore", "spawning", "running", "killing", "done"}
Bound == now <= MaxNow
=============================================================================
