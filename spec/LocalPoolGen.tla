---------------------------- MODULE LocalPoolGen ----------------------------
(* Scenario generator for the local pool: behaviours of LocalPool in which  *)
(* external events are injected only at quiescent points (the discipline of *)
(* the driver); the sequence of external events is printed as JSON.         *)
EXTENDS LocalPool, Json

CONSTANTS D, BadKinds
VARIABLE ev
gvars == <<vars, ev>>

BadAttr(k) == CASE k = "enq_extra" -> {} [] k = "enq_limit_str" -> {"badlimit"} [] OTHER -> {"baddeps"}
GenInit == Init /\ ev = << >>
ExtStep ==
  /\ Quiescent
  /\ \/ \E ds \in SUBSET Ids, lim \in Limits, at \in Attrs :
          Enqueue(ds, lim, at) /\ ev' = Append(ev, [e |-> "Enqueue", deps |-> ds, limit |-> lim, attrs |-> at, t |-> n])
     \/ \E t \in Ids : \/ /\ st[t] \in {"SUBMITTED", "RUNNING"} \/ Len(ev) % 7 = 0   \* few no-op cancels
                          /\ Cancel(t) /\ ev' = Append(ev, [e |-> "Cancel", t |-> t])
                       \/ \E c \in {0, 0, 1, -15} : ProcExit(t, c) /\ ev' = Append(ev, [e |-> "Exit", t |-> t, rc |-> c])
     \/ Tick /\ ev' = Append(ev, [e |-> "Tick"])
     (* client-side steps that must not affect the pool (C14) *)
     \/ \E k \in BadKinds : UNCHANGED vars /\ ev' = Append(ev, [e |-> "Bad", kind |-> k])
     \/ BadKinds # {} /\ UNCHANGED vars /\ ev' = Append(ev, [e |-> "States"])
     (* well-formed JSON of the wrong shape that the server nevertheless accepts as a task *)
     \/ BadKinds # {} /\ \E k \in {"enq_extra", "enq_unknown_dep", "enq_deps_str", "enq_limit_str"} :
           /\ Enqueue({}, 0, BadAttr(k)) /\ ev' = Append(ev, [e |-> "BadEnq", kind |-> k, t |-> n])
IntStep == (\E t \in Ids : Internal(t)) /\ ev' = ev
Pad == Quiescent /\ n = MaxTasks /\ UNCHANGED gvars      \* lets a finished behaviour reach depth D
GenNext == ExtStep \/ IntStep \/ Pad
GenSpec == GenInit /\ [][GenNext]_gvars

EmitAtDepth == IF TLCGet("level") >= D THEN PrintT(ToJson([cores |-> Cores, ev |-> ev])) /\ FALSE ELSE TRUE
=============================================================================
