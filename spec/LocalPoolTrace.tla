--------------------------- MODULE LocalPoolTrace ---------------------------
(***************************************************************************)
(* Trace validation for the local pool by search.  The specification is    *)
(* deliberately nondeterministic (which waiter gets a free core, which     *)
(* failed dependency's state is inherited), so internal actions are taken  *)
(* silently between recorded events; an event is consumed only when the    *)
(* specification is quiescent and the observation recorded after the       *)
(* previous event matches the specification state under the chosen Focus:  *)
(*   C11 - the sequence of spawned processes                               *)
(*   C12 - the set of live processes                                       *)
(*   C13 - the task state table                                            *)
(* A trace is accepted iff some path consumes it completely.               *)
(***************************************************************************)
EXTENDS LocalPool, Json, IOUtils

CONSTANT Focus
Batch == JsonDeserialize(IOEnv.TRACE_FILE)
VARIABLES tid, l
tvars == <<vars, tid, l>>

Events == Batch[tid].events
Ev == Events[l]
S(x) == {x[k] : k \in DOMAIN x}
On(f) == Focus = "all" \/ Focus = f

ObsOK(o) ==
  /\ o.now = now /\ o.n = n
  /\ (On("C13") \/ On("C14")) => \A t \in Ids : ToString(t) \in DOMAIN o.states /\ o.states[ToString(t)] = st[t]
  /\ (On("C12") \/ On("C14")) => S(o.live) = Alive
  /\ On("C11") => Len(o.spawned) = Len(started) /\ \A k \in DOMAIN started : o.spawned[k] = started[k]

(* C14: requests arriving over client connections.  A well-formed request behaves as the   *)
(* corresponding scheduler call and its reply tells the truth; whatever else a client does *)
(* (malformed data, disconnects, unknown ids) leaves the pool untouched.                   *)
Apply(e) ==
  CASE e.e = "Enqueue" -> Enqueue(S(e.deps), e.limit, S(e.attrs))
    [] e.e = "ReqEnqueue" -> e.reply = n /\ Enqueue(S(e.deps), e.limit, S(e.attrs))
    [] e.e = "ReqStates"  -> /\ e.count = n
                             /\ \A t \in Ids : ToString(t) \in DOMAIN e.reply /\ e.reply[ToString(t)] = st[t]
                             /\ UNCHANGED vars
    [] e.e = "ReqCancel"  -> Cancel(e.t)
    [] e.e = "Bad"        -> UNCHANGED vars
    [] e.e = "BadEnq"     -> e.reply = n /\ Enqueue({}, 0, S(e.attrs))
    [] e.e = "Exit"    -> ProcExit(e.t, e.rc)
    [] e.e = "Cancel"  -> Cancel(e.t)
    [] e.e = "Tick"    -> Tick

TraceInit == Init /\ tid \in 1..Len(Batch) /\ l = 1
Silent  == (\E t \in Ids : Internal(t)) /\ UNCHANGED <<tid, l>>
(* an event marked `atonce` was issued in the same turn of the pool's event loop as the previous one (a cancel   *)
(* right behind the enqueue, before the worker took its first step): nothing could be observed in between and   *)
(* the pool was not quiescent                                                                                   *)
AtOnce(e) == "atonce" \in DOMAIN e /\ e.atonce
Consume == /\ l <= Len(Events)
           /\ AtOnce(Ev) \/ (Quiescent /\ (l > 1 => ObsOK(Events[l - 1].obs)))
           /\ Apply(Ev) /\ l' = l + 1 /\ tid' = tid
(* C13: the output of a task that ran to its end is stored completely *)
LogsOK  == On("C13") => \A t \in Ids : (pc[t] = "done" /\ cause[t] \in {"exit0", "exitN"}) =>
                  (ToString(t) \in DOMAIN Batch[tid].logs /\ Batch[tid].logs[ToString(t)] = "ok")
Last    == /\ Quiescent /\ l = Len(Events) + 1 /\ ObsOK(Events[Len(Events)].obs) /\ LogsOK
           /\ l' = l + 1 /\ UNCHANGED <<vars, tid>>
TraceNext == Silent \/ Consume \/ Last
TraceSpec == TraceInit /\ [][TraceNext]_tvars

Accepted == l <= Len(Events) + 1 \/ PrintT(ToJson([id |-> Batch[tid].id, ok |-> TRUE]))
(* diagnostic run: how far each trace gets *)
Progress == PrintT(ToJson([id |-> Batch[tid].id, reached |-> l]))
=============================================================================
