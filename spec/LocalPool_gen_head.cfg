SPECIFICATION GenSpec
CONSTRAINT EmitAtDepth
CHECK_DEADLOCK FALSE
