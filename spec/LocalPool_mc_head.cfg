SPECIFICATION Spec
INVARIANT TypeOK
INVARIANT C12_CoreBound
INVARIANT C12_WorkConserving
INVARIANT C11_StartOnlyAfterDepsOK
INVARIANT C11_Inherit
INVARIANT C13_FinalMatches
INVARIANT C13_DoneIsFinal
INVARIANT C13_CompletedIff
INVARIANT C13_NoRerun
INVARIANT C13_NoOrphans
PROPERTY C13_Stable
CHECK_DEADLOCK FALSE
