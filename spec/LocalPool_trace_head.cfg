SPECIFICATION TraceSpec
INVARIANT Accepted
CHECK_DEADLOCK FALSE
