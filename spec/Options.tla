------------------------------ MODULE Options ------------------------------
(***************************************************************************)
(* C10: how a target's resource options are resolved and what a job script *)
(* must do.                                                                *)
(*  - an option value comes from four layers, later ones overriding        *)
(*    earlier ones: back-end default < workflow default < template option  *)
(*    < per-target argument; each layer is Absent, None, or a value;       *)
(*  - the option is emitted as a scheduler directive iff the back end      *)
(*    knows it and the resolved value is not None, exactly once, with the  *)
(*    resolved value (SGE memory: total memory divided by cores);          *)
(*  - an option the back end does not know is dropped with a warning;      *)
(*  - the script runs the spec verbatim in the target's working directory  *)
(*    and stops at the first failing command;                              *)
(*  - log cleaning removes only logs of targets that are no longer part    *)
(*    of the workflow, and nothing when it is disabled or on a dry run.    *)
(***************************************************************************)
EXTENDS Integers, Sequences, FiniteSets, TLC

Absent == "absent"
NoneV  == "None"
Layer  == {Absent, NoneV, "V1", "V2"}

(* layers in increasing precedence *)
Resolve(bdef, wfdef, tmpl, arg) ==
  LET chain == <<bdef, wfdef, tmpl, arg>>
      given == {k \in 1..4 : chain[k] # Absent} IN
  IF given = {} THEN Absent ELSE chain[CHOOSE k \in given : \A j \in given : j <= k]

(* option kinds: known with a default value ("D"), known with default None, unknown to the back end *)
BackendDefault(kind) == CASE kind = "known_default" -> "D" [] kind = "known_none" -> NoneV [] OTHER -> Absent
Known(kind) == kind # "unknown"
Given(wfdef, tmpl, arg) == {wfdef, tmpl, arg} # {Absent}

Emitted(kind, wfdef, tmpl, arg) ==      \* the value of the directive, or Absent when there must be none
  LET r == Resolve(BackendDefault(kind), wfdef, tmpl, arg) IN
  IF Known(kind) /\ r # NoneV THEN r ELSE Absent
Warned(kind, wfdef, tmpl, arg) == ~Known(kind) /\ Given(wfdef, tmpl, arg)

(* job script semantics: commands executed = the prefix up to and including the first failing one *)
RECURSIVE Executed(_)
Executed(cmds) == IF cmds = << >> THEN << >>
                  ELSE IF Head(cmds).c = "Fail" THEN <<Head(cmds)>>
                  ELSE <<Head(cmds)>> \o Executed(Tail(cmds))
Echoed(cmds) == LET ex == Executed(cmds) IN [k \in {j \in DOMAIN ex : ex[j].c = "Echo"} |-> ex[k].tok]
EchoSeq(cmds) == LET ex == Executed(cmds)
                     RECURSIVE Pick(_)
                     Pick(k) == IF k > Len(ex) THEN << >>
                                ELSE (IF ex[k].c = "Echo" THEN <<ex[k].tok>> ELSE << >>) \o Pick(k + 1)
                 IN Pick(1)
Touches(cmds) == {ex.f : ex \in {Executed(cmds)[k] : k \in {j \in DOMAIN Executed(cmds) : Executed(cmds)[j].c = "Touch"}}}
Fails(cmds) == \E k \in DOMAIN cmds : cmds[k].c = "Fail"

(* log cleaning *)
LogsAfter(logs, current, enabled, dryrun) ==
  IF enabled /\ ~dryrun THEN {t \in logs : t \in current} ELSE logs
=============================================================================
