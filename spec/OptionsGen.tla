----------------------------- MODULE OptionsGen -----------------------------
EXTENDS Options, Json, Randomization
CONSTANT Sample
Backends == {"slurm", "sge", "lsf"}
Modes == {"target", "template", "map"}
OptScns == {[kind |-> "option", backend |-> b, okind |-> k, mode |-> m, wfdef |-> w, tmpl |-> t, arg |-> a] :
              b \in Backends, k \in {"known_default", "known_none", "unknown"}, m \in Modes,
              w \in Layer, t \in Layer, a \in Layer}
OptOK(s) == /\ (s.mode = "target" => s.tmpl = Absent)
            /\ (s.backend = "lsf" => s.okind # "known_none")       \* every LSF option has a default
(* a second option, spelled like the scheduler's own word for something gwf already has an option for, set at *)
(* another level: whatever the back end makes of it, no directive may reach the scheduler twice              *)
TwoOpts == {[kind |-> "twoopts", backend |-> b, known |-> k, other |-> o, otherat |-> l, mode |-> m] :
              b \in Backends, k \in {"queue", "cores", "memory", "walltime"},
              o \in {"partition", "ntasks", "cpus_per_task", "mem", "time", "nodes", "q", "n", "W", "M"},
              l \in {"wfdef", "tmpl", "arg"}, m \in {"target", "template"}}
SgeMem == {[kind |-> "sgemem", backend |-> "sge", cores |-> c, total |-> m, unit |-> u] : c \in {1, 2, 4}, m \in {8, 1000, 3}, u \in {"g", "m"}}

Cmds == {[c |-> "Echo", tok |-> "plain"], [c |-> "Echo", tok |-> "quotes"], [c |-> "Echo", tok |-> "dollar"], [c |-> "Echo", tok |-> "braces"],
         [c |-> "Fail"], [c |-> "Touch", f |-> "made1"], [c |-> "Touch", f |-> "made2"], [c |-> "Pwd"]}
CmdSeqs == UNION {[1..n -> Cmds] : n \in 0..3}
DirClasses == {"plain", "space", "squote", "dquote", "dollar", "semicolon", "amp", "glob", "dash", "unicode", "paren", "braces"}
ScriptU == [cmds : CmdSeqs, dir : DirClasses, backend : Backends, logmode : {"full", "merged", "none"}, nl : {"nl", "nonl", "blank"}]
ScriptScns == {[kind |-> "script"] @@ s : s \in (IF Sample = 0 THEN ScriptU ELSE RandomSubset(Sample, ScriptU))}
ScriptOK(s) == s.backend = "slurm" \/ s.logmode = "full"           \* only Slurm has log modes

LogScns == {[kind |-> "logclean", present |-> p, current |-> c, enabled |-> e, dryrun |-> d] :
              p \in SUBSET {"A", "B", "Gone1", "Gone2"}, c \in {{"A", "B"}, {"A"}}, e \in BOOLEAN, d \in BOOLEAN}

ASSUME \A s \in OptScns : OptOK(s) => PrintT(ToJson(s))
ASSUME \A s \in SgeMem : PrintT(ToJson(s))
ASSUME \A s \in TwoOpts : (s.mode = "target" => s.otherat # "tmpl") => PrintT(ToJson(s))
(* a run that first submits a target without any option and then one that sets an option: the *)
(* second target's directive must not depend on what was submitted before it                  *)
ASSUME \A b \in {"slurm", "sge"}, k \in {"known_none", "known_default"}, a \in {"V1", "V2"} :
          PrintT(ToJson([kind |-> "option", backend |-> b, okind |-> k, mode |-> "after_plain", wfdef |-> Absent, tmpl |-> Absent, arg |-> a]))
ASSUME \A s \in ScriptScns : ScriptOK(s) => PrintT(ToJson(s))
ASSUME \A s \in LogScns : PrintT(ToJson(s))
=============================================================================
