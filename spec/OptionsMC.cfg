INIT Init
NEXT Next
INVARIANT L_ArgWins
INVARIANT L_TemplateOverWorkflow
INVARIANT L_WorkflowOverBackend
INVARIANT L_DefaultLast
INVARIANT L_NoneNeverEmitted
INVARIANT L_UnknownNeverEmitted
INVARIANT L_WarnIffUnknownGiven
CHECK_DEADLOCK FALSE
