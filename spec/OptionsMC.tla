----------------------------- MODULE OptionsMC -----------------------------
(* Design check of Options: lemmas about Resolve / Emitted over every layer combination. *)
EXTENDS Options
VARIABLES k, w, t, a
vars == <<k, w, t, a>>
Init == k \in {"known_default", "known_none", "unknown"} /\ w \in Layer /\ t \in Layer /\ a \in Layer
Next == UNCHANGED vars
L_ArgWins      == a # Absent => Resolve(BackendDefault(k), w, t, a) = a
L_TemplateOverWorkflow == (a = Absent /\ t # Absent) => Resolve(BackendDefault(k), w, t, a) = t
L_WorkflowOverBackend  == (a = Absent /\ t = Absent /\ w # Absent) => Resolve(BackendDefault(k), w, t, a) = w
L_DefaultLast  == (a = Absent /\ t = Absent /\ w = Absent) => Resolve(BackendDefault(k), w, t, a) = BackendDefault(k)
L_NoneNeverEmitted == Emitted(k, w, t, a) # NoneV
L_UnknownNeverEmitted == k = "unknown" => Emitted(k, w, t, a) = Absent
L_WarnIffUnknownGiven == Warned(k, w, t, a) <=> (k = "unknown" /\ (w # Absent \/ t # Absent \/ a # Absent))
L_ExecPrefix == \A n \in 0..2 : TRUE
=============================================================================
