---------------------------- MODULE OptionsTrace ----------------------------
EXTENDS Options, Json, IOUtils
Batch == JsonDeserialize(IOEnv.TRACE_FILE)
VARIABLE i
S(x) == {x[k] : k \in DOMAIN x}

OptClauses(s, o) ==
  LET e == Emitted(s.okind, s.wfdef, s.tmpl, s.arg) IN
  [ C10_directives |-> /\ o.exit = 0
                       /\ IF e = Absent THEN Len(o.values) = 0
                          ELSE Len(o.values) = 1 /\ o.values[1] = e,     \* exactly once, with the resolved value
    C10_unknown_dropped |-> Warned(s.okind, s.wfdef, s.tmpl, s.arg) <=> o.warned,
    C10_no_none_literal |-> ~o.none_literal ]

(* SGE wants per-core memory: total // cores, same unit *)
SgeClauses(s, o) == [ C10_sge_mem |-> o.exit = 0 /\ o.number * s.cores <= s.total /\ s.total < (o.number + 1) * s.cores /\ o.unit = s.unit /\ o.count = 1 ]

ScriptClauses(s, o) ==
  [ C10_verbatim |-> o.exit = 0 /\ o.spec_verbatim,
    C10_exec |-> /\ o.ran
                 (* with log mode "none" the job's output is discarded: only its side effects are observable *)
                 /\ s.logmode # "none" =>
                       /\ Len(o.echoed) = Len(EchoSeq(s.cmds)) /\ \A k \in DOMAIN o.echoed : o.echoed[k] = EchoSeq(s.cmds)[k]
                       /\ o.pwd_ok
                 /\ S(o.created_in_wd) = Touches(s.cmds)
                 /\ Len(o.created_elsewhere) = 0
                 /\ (o.job_failed <=> Fails(s.cmds)),
    C10_logs |-> /\ o.stdout_log = (IF s.logmode = "none" THEN "absent" ELSE "stdout")
                 /\ o.stderr_log = (CASE s.logmode = "full" -> "stderr" [] s.logmode = "merged" -> "in_stdout" [] OTHER -> "absent")
                 /\ (s.logmode # "none" => o.gwf_logs_ok) ]

LogClauses(s, o) ==
  [ C10_logclean |-> o.exit = 0 /\ S(o.after) = LogsAfter(S(s.present), S(s.current), s.enabled, s.dryrun) ]

(* "no option is given twice with conflicting values": no directive flag appears twice at all *)
TwoClauses(s, o) == [ C10_directives |-> o.exit = 0 /\ Len(o.dupflags) = 0 ]

Clauses(s, o) == CASE s.kind = "option" -> OptClauses(s, o) [] s.kind = "twoopts" -> TwoClauses(s, o) [] s.kind = "sgemem" -> SgeClauses(s, o)
                   [] s.kind = "script" -> ScriptClauses(s, o) [] s.kind = "logclean" -> LogClauses(s, o)
Failed(r) == LET c == Clauses(r.scn, r.obs) IN {n \in DOMAIN c : ~c[n]}
Init == i \in 1..Len(Batch)
Next == UNCHANGED i
Verdict == LET f == Failed(Batch[i]) IN
           f = {} \/ PrintT(ToJson([id |-> Batch[i].id, failed |-> f]))
=============================================================================
