------------------------------ MODULE RealPool ------------------------------
(***************************************************************************)
(* Tier 2 of C13 (and C12): the local pool with real child processes.     *)
(* A scenario is one task with a script of a given kind, ended in a given  *)
(* way; the oracle is the final-state rule of LocalPool (cause -> state),  *)
(* the absence of surviving processes of the task after cancellation or    *)
(* time-out, and complete logs for a task that ran to its end.             *)
(***************************************************************************)
EXTENDS Integers, Sequences, TLC, Json, IOUtils

Kinds == {"exec", "sequence", "background", "pipeline", "bigoutput", "orphaning", "termproof"}
Hows  == {"exit0", "exit1", "cancel", "timeout"}
Scns  == {[kind |-> k, how |-> h, cores |-> c] : k \in Kinds, h \in Hows, c \in {1, 2}}

FinalFor(how) == CASE how = "exit0" -> "COMPLETED" [] how = "exit1" -> "FAILED"
                   [] how = "cancel" -> "CANCELLED" [] how = "timeout" -> "KILLED"

Batch == IF "TRACE_FILE" \in DOMAIN IOEnv THEN JsonDeserialize(IOEnv.TRACE_FILE) ELSE << >>
VARIABLE i
Clauses(s, o) ==
  [ C13_final_state |-> o.state = FinalFor(s.how),
    C13_no_orphans  |-> s.how \in {"cancel", "timeout"} => o.survivors = 0,
    C13_logs_complete |-> s.how \in {"exit0", "exit1"} => o.logs_ok,
    C12_core_bound_real |-> o.max_overlap <= s.cores ]
Failed(r) == LET c == Clauses(r.scn, r.obs) IN {n \in DOMAIN c : ~c[n]}
Init == i \in 1..Len(Batch)
Next == UNCHANGED i
Verdict == LET f == Failed(Batch[i]) IN
           f = {} \/ PrintT(ToJson([id |-> Batch[i].id, failed |-> f]))

(* generation: run with GEN=1 and no trace file *)
ASSUME ("GEN" \in DOMAIN IOEnv) => \A s \in Scns : PrintT(ToJson(s))
=============================================================================
