------------------------------ MODULE SchedSem ------------------------------
(***************************************************************************)
(* What each scheduler's state codes mean for gwf (C08), written from the  *)
(* schedulers' documentation and the property statement:                   *)
(*   queued/held -> submitted, executing -> running, failure states ->     *)
(*   failed, cancellation -> cancelled, success or no record -> the        *)
(*   file-based decision ("F" below).                                      *)
(* Allowed(backend, source, code) is the set of classes a correct gwf may  *)
(* show for a job in that state.  It is a singleton wherever the statement *)
(* fixes the class.  For codes the statement does not classify (suspended  *)
(* jobs, jobs being deleted, error/zombie/unknown states) the set holds    *)
(* what the pinned implementation answers and the nearest class the        *)
(* statement names; changing those entries is a conscious edit of the      *)
(* oracle.                                                                 *)
(***************************************************************************)
EXTENDS Naturals, Sequences, FiniteSets

Classes == {"S", "R", "X", "K", "F"}

SlurmShort ==
  [ PD |-> {"S"}, CF |-> {"S"}, RD |-> {"S"}, RF |-> {"S"}, RH |-> {"S"}, RQ |-> {"S"},
    RS |-> {"S"}, RV |-> {"S"}, SE |-> {"S"}, SO |-> {"S"},
    R |-> {"R"}, CG |-> {"R"},
    F |-> {"X"}, BF |-> {"X"}, DL |-> {"X"}, NF |-> {"X"}, OOM |-> {"X"}, TO |-> {"X"}, PR |-> {"X"},
    CA |-> {"K"}, CD |-> {"F"},
    S |-> {"R", "S"}, ST |-> {"R", "S"} ]            \* suspended / stopped: not classified by the statement

SlurmLong ==
  [ PENDING |-> {"S"}, REQUEUED |-> {"S"}, RESIZING |-> {"S"}, REVOKED |-> {"S"},
    RUNNING |-> {"R"},
    FAILED |-> {"X"}, BOOT_FAIL |-> {"X"}, DEADLINE |-> {"X"}, NODE_FAIL |-> {"X"},
    OUT_OF_MEMORY |-> {"X"}, TIMEOUT |-> {"X"}, PREEMPTED |-> {"X"},
    CANCELLED |-> {"K"}, CANCELLED_BY |-> {"K"},      \* "CANCELLED by <uid>"
    COMPLETED |-> {"F"},
    SUSPENDED |-> {"R", "S"} ]

SGE ==
  [ qw |-> {"S"}, hqw |-> {"S"}, hRwq |-> {"S"},
    r |-> {"R"}, t |-> {"R"}, Rr |-> {"R"}, Rt |-> {"R"},
    s |-> {"R", "S"}, S |-> {"R", "S"}, T |-> {"R", "S"},      \* suspended
    dr |-> {"F", "K", "R"}, dt |-> {"F", "K", "R"},             \* being deleted
    Eqw |-> {"F", "X", "S"} ]                                   \* error state

LSF ==
  [ PEND |-> {"S"}, WAIT |-> {"S"}, RUN |-> {"R"}, DONE |-> {"F"}, EXIT |-> {"X"},
    PSUSP |-> {"X", "S"}, USUSP |-> {"X", "R", "S"}, SSUSP |-> {"X", "R", "S"},
    ZOMBI |-> {"R", "X"}, UNKWN |-> {"F", "R"} ]

Local ==
  [ SUBMITTED |-> {"S"}, RUNNING |-> {"R"}, FAILED |-> {"X"}, KILLED |-> {"X"},
    CANCELLED |-> {"K"}, COMPLETED |-> {"F"}, UNKNOWN |-> {"F"} ]

None == "-"     \* the scheduler does not list the job in that source

(* Slurm: the live queue wins over the accounting database; the database is *)
(* consulted only when accounting is enabled.                               *)
SlurmAllowed(q, a, acct) ==
  IF q # None THEN SlurmShort[q]
  ELSE IF acct /\ a # None THEN SlurmLong[a]
  ELSE {"F"}

Allowed(backend, q, a, acct) ==
  CASE backend = "slurm" -> SlurmAllowed(q, a, acct)
    [] backend = "sge"   -> IF q = None THEN {"F"} ELSE SGE[q]
    [] backend = "lsf"   -> IF q = None THEN {"F"} ELSE LSF[q]
    [] backend = "local" -> IF q = None THEN {"F"} ELSE Local[q]

(* what `gwf status` shows for a class, given the file-based decision *)
Shown(class, filebased) ==
  CASE class = "S" -> "submitted" [] class = "R" -> "running" [] class = "X" -> "failed"
    [] class = "K" -> "cancelled" [] class = "F" -> filebased

(* kind of dependency each back end is given, and what releases a held job *)
HoldKind(backend) == CASE backend \in {"slurm", "slurm_noacct"} -> "afterok"
                       [] backend = "sge" -> "hold_jid" [] backend = "lsf" -> "done" [] OTHER -> "local"
=============================================================================
