------------------------------ MODULE ValidGen ------------------------------
(***************************************************************************)
(* Scenario generator for C04: arbitrary (mostly ill-formed) workflows -    *)
(* every assignment of input and output sets to the targets - with every   *)
(* present/missing state of the files, plus the parametric families        *)
(* Chain(N) and ChainWithBackEdge(N, i, j) whose small members TLC         *)
(* evaluates and whose large members the driver instantiates.              *)
(***************************************************************************)
EXTENDS GwfDefs, TLC, Json, Randomization

CONSTANTS NT, NF, MaxIO, Sample, FamN

TNames == <<"A", "B", "C", "D", "E", "G">>
FNames == <<"f1", "f2", "f3", "f4", "f5", "f6", "f7">>
T == {TNames[i] : i \in 1..NT}
F == {FNames[i] : i \in 1..NF}
Small(S) == {x \in SUBSET S : Cardinality(x) <= MaxIO}

Universe == [in : [T -> Small(F)], out : [T -> Small(F)], fs : [F -> {Missing, 0}]]
Chosen == IF Sample = 0 THEN Universe ELSE RandomSubset(Sample, Universe)
Scn(u) == [T |-> T, in |-> u.in, out |-> u.out, fs |-> u.fs, family |-> "none", n |-> NT, i |-> 0, j |-> 0]

(* Chain(n): t1 <- t2 <- ... <- tn (t_k reads the file t_{k-1} writes);    *)
(* with a back edge, t_i additionally reads what t_j (j >= i) writes.      *)
ChainT(n) == {TNames[k] : k \in 1..n}
Idx(t) == CHOOSE k \in 1..6 : TNames[k] = t
ChainScn(n, i, j) ==
  [T |-> ChainT(n),
   in |-> [t \in ChainT(n) |-> (IF Idx(t) > 1 THEN {FNames[Idx(t) - 1]} ELSE {})
                               \cup (IF i > 0 /\ Idx(t) = i THEN {FNames[j]} ELSE {})],
   out |-> [t \in ChainT(n) |-> {FNames[Idx(t)]}],
   fs |-> [f \in {FNames[k] : k \in 1..n} |-> Missing],
   family |-> IF i = 0 THEN "chain" ELSE "backedge", n |-> n, i |-> i, j |-> j]

Families == {ChainScn(n, 0, 0) : n \in 1..FamN}
       \cup {ChainScn(n, ij[1], ij[2]) : n \in 1..FamN, ij \in {p \in (1..FamN) \X (1..FamN) : p[1] <= p[2]}}

ASSUME \A u \in Chosen : PrintT(ToJson(Scn(u)))
ASSUME \A s \in Families : (s.i <= s.n /\ s.j <= s.n) => PrintT(ToJson(s))
=============================================================================
