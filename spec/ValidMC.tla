------------------------------ MODULE ValidMC ------------------------------
(***************************************************************************)
(* Design check for C04: the definitions of "ill-formed" in GwfDefs agree  *)
(* with independent characterisations on every small workflow, and react   *)
(* monotonically to adding an input or an output declaration.              *)
(***************************************************************************)
EXTENDS GwfDefs, TLC
CONSTANTS NT, NF, MaxIO
TNames == <<"A", "B", "C", "D">>
FNames == <<"f1", "f2", "f3", "f4">>
T == {TNames[i] : i \in 1..NT}
F == {FNames[i] : i \in 1..NF}
Small(S) == {x \in SUBSET S : Cardinality(x) <= MaxIO}

VARIABLES w, fs, phase
vars == <<w, fs, phase>>

Init == /\ \E in \in [T -> Small(F)] : w = [T |-> T, in |-> in, out |-> [t \in T |-> {}]]
        /\ fs = [f \in F |-> 0] /\ phase = 0
Pick == /\ phase = 0 /\ phase' = 1
        /\ \E out \in [T -> Small(F)] : w' = [w EXCEPT !.out = out]
        /\ fs' \in [F -> {Missing, 0}]
AddInput(t, f)  == /\ phase = 1 /\ phase' = 2 /\ f \notin w.in[t]
                   /\ w' = [w EXCEPT !.in[t] = @ \cup {f}] /\ fs' = fs
AddOutput(t, f) == /\ phase = 1 /\ phase' = 2 /\ f \notin w.out[t]
                   /\ w' = [w EXCEPT !.out[t] = @ \cup {f}] /\ fs' = fs
Create(f)       == /\ phase = 1 /\ phase' = 2 /\ fs[f] = Missing
                   /\ fs' = [fs EXCEPT ![f] = 0] /\ w' = w
Next == Pick \/ \E t \in T, f \in F : AddInput(t, f) \/ AddOutput(t, f)
             \/ \E g \in F : Create(g)

(* acyclic iff the targets can be ranked with every dependency ranked lower *)
L_AcyclicIffRanked == phase = 1 =>
   (Acyclic(w) <=> \E rank \in [T -> 1..NT] : \A p \in DepRel(w) : rank[p[2]] < rank[p[1]])
L_MultiIffShared == phase = 1 =>
   (("multi" \in Errors(w, fs)) <=> \E t1 \in T, t2 \in T : t1 # t2 /\ w.out[t1] \cap w.out[t2] # {})
L_UnresolvedIff == phase = 1 =>
   (("unresolved" \in Errors(w, fs)) <=>
        \E t \in T : \E f \in w.in[t] : fs[f] = Missing /\ \A d \in T : f \notin w.out[d])
L_SelfLoopIsCycle == phase = 1 => \A t \in T : w.in[t] \cap w.out[t] # {} => "cycle" \in Errors(w, fs)
L_DependentsInverse == phase = 1 => \A t \in T, d \in T : (d \in Deps(w, t)) <=> (t \in Dependents(w, d))
L_EndpointsExist == phase = 1 => (Acyclic(w) => Endpoints(w) # {})

(* declaring more never repairs a cycle or a duplicate producer; creating *)
(* a file only ever removes the "unresolved" defect                        *)
A_Monotone == /\ (\E t \in T, f \in F : AddInput(t, f) \/ AddOutput(t, f)) =>
                    /\ ("cycle" \in Errors(w, fs) => "cycle" \in Errors(w', fs'))
                    /\ ("multi" \in Errors(w, fs) => "multi" \in Errors(w', fs'))
              /\ (\E f \in F : Create(f)) => Errors(w', fs') \subseteq Errors(w, fs)
P_Monotone == [][A_Monotone]_vars
=============================================================================
