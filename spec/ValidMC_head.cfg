INIT Init
NEXT Next
INVARIANT L_AcyclicIffRanked
INVARIANT L_MultiIffShared
INVARIANT L_UnresolvedIff
INVARIANT L_SelfLoopIsCycle
INVARIANT L_DependentsInverse
INVARIANT L_EndpointsExist
PROPERTY P_Monotone
CHECK_DEADLOCK FALSE
