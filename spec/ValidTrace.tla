----------------------------- MODULE ValidTrace -----------------------------
(***************************************************************************)
(* C04: what graph construction and the commands did on a possibly         *)
(* ill-formed workflow, judged against GwfDefs!Errors.                     *)
(* obs.built  - Graph.from_targets returned a graph                        *)
(* obs.kind   - otherwise the kind of error raised ("multi", "unresolved", *)
(*              "cycle", or "other:<exception>")                           *)
(* obs.cli    - for a sample: per command [cmd, exit, errline, changed,    *)
(*              mutating] on the same workflow through the real CLI        *)
(* obs.big    - for family members: outcome of from_targets / status /     *)
(*              dry-run / touch on the instance scaled to obs.bign targets *)
(*              in each definition order ("ok" or the exception name)      *)
(***************************************************************************)
EXTENDS GwfDefs, TLC, Json, IOUtils

Batch == JsonDeserialize(IOEnv.TRACE_FILE)
VARIABLE i

T(s) == Range(s.T)
W(s) == [T |-> T(s), in |-> [t \in T(s) |-> Range(s.in[t])], out |-> [t \in T(s) |-> Range(s.out[t])]]
Err(s) == Errors(W(s), s.fs)

Clauses(s, o) ==
  [ C04_accept |-> o.built <=> Err(s) = {},
    C04_kind   |-> ~o.built => o.kind \in Err(s),
    C04_no_side_effect |-> Err(s) # {} =>
        \A k \in DOMAIN o.cli : /\ o.cli[k].exit # 0 /\ o.cli[k].errline
                                /\ ~o.cli[k].changed /\ ~o.cli[k].mutating,
    C04_cli_accepts |-> Err(s) = {} => \A k \in DOMAIN o.cli : o.cli[k].exit = 0,
    (* scaled members of a family behave like the small member TLC evaluated *)
    C04_terminates |-> \A k \in DOMAIN o.big :
        IF Err(s) = {} THEN o.big[k].outcome = "ok"
        ELSE o.big[k].op = "from_targets" => o.big[k].outcome \in Err(s)
  ]

Failed(r) == LET c == Clauses(r.scn, r.obs) IN {n \in DOMAIN c : ~c[n]}
Init == i \in 1..Len(Batch)
Next == UNCHANGED i
Verdict == LET f == Failed(Batch[i]) IN
           f = {} \/ PrintT(ToJson([id |-> Batch[i].id, failed |-> f]))
=============================================================================
