INIT Init
NEXT Next
INVARIANT Verdict
CHECK_DEADLOCK FALSE
