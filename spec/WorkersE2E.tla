----------------------------- MODULE WorkersE2E -----------------------------
(***************************************************************************)
(* End-to-end tier of C14 / C12: the real `gwf workers` process, healthy   *)
(* `gwf -b local run/status/cancel` invocations and a raw-socket client    *)
(* that misbehaves in between.  The oracle is the outcome LocalPool allows *)
(* for n independent tasks on a pool of c cores whose processes end only   *)
(* when the driver releases them: exactly min(c, n) run at once, a state   *)
(* query tells which ones, all of them complete, and the pool serves a new *)
(* client afterwards - whatever the misbehaving client sent.               *)
(***************************************************************************)
EXTENDS Integers, Sequences, FiniteSets, TLC, Json, IOUtils, Randomization

Kinds == {"garbage", "array", "nokind", "cancel_unknown", "enq_missing", "invalid_utf8", "half_line_then_drop", "drop", "flood_no_read"}
Scns == {[cores |-> c, ntasks |-> c + extra, misbehave |-> m] :
            c \in 1..3, extra \in 1..2, m \in {<<>>} \cup {<<k>> : k \in Kinds} \cup {<<k1, k2>> : k1 \in Kinds, k2 \in {"drop", "garbage"}}}
Min2(a, b) == IF a < b THEN a ELSE b

Batch == IF "TRACE_FILE" \in DOMAIN IOEnv THEN JsonDeserialize(IOEnv.TRACE_FILE) ELSE << >>
VARIABLE i
Clauses(s, o) ==
  [ C14_server_up |-> o.started /\ o.served_after,
    C14_true_states |-> o.run_exit = 0 /\ o.status_ok /\ o.all_completed,
    C12_core_bound_cli |-> o.max_live <= s.cores,
    C12_work_conserving_cli |-> o.max_live >= Min2(s.cores, s.ntasks) ]
Failed(r) == LET c == Clauses(r.scn, r.obs) IN {n \in DOMAIN c : ~c[n]}
Init == i \in 1..Len(Batch)
Next == UNCHANGED i
Verdict == LET f == Failed(Batch[i]) IN
           f = {} \/ PrintT(ToJson([id |-> Batch[i].id, failed |-> f]))
ASSUME ("GEN" \in DOMAIN IOEnv) => \A s \in RandomSubset(IF IOEnv.GEN = "all" THEN Cardinality(Scns) ELSE 24, Scns) : PrintT(ToJson(s))
=============================================================================
