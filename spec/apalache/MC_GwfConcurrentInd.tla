------------------------ MODULE MC_GwfConcurrentInd ------------------------
(***************************************************************************)
(* Apalache wrapper: an inductive invariant of GwfConcurrent under         *)
(* assumption A4 (Serial = TRUE).  Three obligations, each one step deep:  *)
(*   Init => IndInv            (--init=Init    --inv=IndInv --length=0)    *)
(*   IndInv /\ Next => IndInv' (--init=IndInit --inv=IndInv --length=1)    *)
(*   IndInv => Safety          (--init=IndInit --inv=Safety --length=0)    *)
(* Together: with one invocation at a time no target ever has two jobs and *)
(* every job is tracked, for every number of steps (3 targets, 2           *)
(* invocations asked for everything; job table bounded by 3 only in IndInit's   *)
(* generator - more jobs than targets are impossible under IndInv).        *)
(***************************************************************************)
EXTENDS Integers, Sequences, FiniteSets, Apalache

Targets == {"A", "B", "C"}
Procs == {"p1", "p2"}
Serial == TRUE

VARIABLES
  \* @type: Str -> Int;
  file,
  \* @type: Seq(Str);
  jobs,
  \* @type: Str -> Str;
  pc,
  \* @type: Str -> (Str -> Int);
  mtrk,
  \* @type: Str -> Set(Str);
  todo

(* every invocation is asked for every target (the selection that makes duplicates possible without A4) *)
Sel == [p \in Procs |-> Targets]

M == INSTANCE GwfConcurrent

Init == M!Init
Next == M!Next

Ids == 0..3
IndInv ==
  /\ file \in [Targets -> Ids]
  /\ pc \in [Procs -> {"idle", "run", "done"}]
  /\ mtrk \in [Procs -> [Targets -> Ids]]
  /\ todo \in [Procs -> SUBSET Targets]
  /\ Len(jobs) <= 3
  /\ \A j \in DOMAIN jobs : jobs[j] \in Targets
  /\ \A p, q \in Procs : pc[p] = "run" /\ pc[q] = "run" => p = q           \* A4
  /\ \A p \in Procs : pc[p] = "run" => mtrk[p] = file                       \* the one running invocation is up to date
  /\ \A p \in Procs : pc[p] = "run" => \A t \in todo[p] : file[t] = 0       \* it plans only untracked targets
  /\ \A t \in Targets : file[t] # 0 => file[t] \in DOMAIN jobs /\ jobs[file[t]] = t
  /\ \A j \in DOMAIN jobs : file[jobs[j]] = j                               \* every job is its target's tracked job

IndInit ==
  /\ file \in [Targets -> Ids]
  /\ pc \in [Procs -> {"idle", "run", "done"}]
  /\ mtrk \in [Procs -> [Targets -> Ids]]
  /\ todo \in [Procs -> SUBSET Targets]
  /\ jobs = Gen(3)
  /\ IndInv

Safety == M!NoDuplicateLive /\ M!LiveJobsTracked
=============================================================================
