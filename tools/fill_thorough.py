#!/venv/bin/python
"""Fill the line about the last thorough run in DESIGN.md section 7 from a `vp run` log."""
import re, sys
log = open(sys.argv[1]).read()
rows = re.findall(r"^(C\d\d) thorough: (\d+) design states, (\d+) impl traces validated, (\d+) violations, ([\d.]+)s", log, re.M)
bad = re.findall(r"^(VIOLATION|MACHINERY).*", log, re.M)
txt = "%d of 20 checks finished so far, all with 0 violations: " % len(rows) if not bad else "PROBLEMS: %s; " % bad[:3]
txt += ", ".join("%s %ds" % (r[0], float(r[4])) for r in rows) + "."
p = "/verif/DESIGN.md"
s = open(p).read()
s = re.sub(r"(Final machinery \(`vp run` #6, commit c1b7d0f\): ).*", lambda m: m.group(1) + txt, s)
open(p, "w").write(s)
print(txt)
