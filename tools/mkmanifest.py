#!/venv/bin/python
"""Regenerate MANIFEST.json from the table below and validate it."""
import json, os, sys
HERE = os.path.dirname(os.path.dirname(os.path.abspath(__file__)))
BASE = json.load(open("/root/.vp/BASELINE.json"))["cmd"].replace("--junitxml=<file>", "--junitxml=/tmp/gwf-baseline.junit.xml")

# id -> (technique, level text, level note, design ref)
CLAIMED = json.load(open(os.path.join(HERE, "tools", "claimed.json")))
ALL = [json.loads(l)["id"] for l in open(os.path.join(HERE, "properties.jsonl"))]

checks = []
for pid in ALL:
    if pid not in CLAIMED:
        continue
    c = CLAIMED[pid]
    checks.append({
        "property_id": pid,
        "quick_cmd": "bin/check %s --tier quick" % pid,
        "thorough_cmd": "bin/check %s --tier thorough" % pid,
        "evidence_file": "evidence/%s.json" % pid,
        "replay_cmd_template": "bin/check %s --replay {path}" % pid,
        "engine": "tlc",
        "level_claimed": {"category": "model_checking", "text": c["text"], "design_ref": c.get("design_ref", "DESIGN.md section 4 " + pid)},
        "level_note": c["note"],
        "technique": c["technique"],
    })
na = [{"property_id": pid, "reason": "check not built yet in this round; specification clauses exist or are planned (DESIGN.md section 4)"} for pid in ALL if pid not in CLAIMED]
m = {
    "version": 1,
    "setup_cmd": "bin/setup",
    "hooks": {
        "guard": "GWF_VERIF",
        "enable": "no hooks: checks import /repo/src directly (gwf is installed in /venv in editable mode) and observe it through its public API, CLI, files and simulated scheduler executables",
        "baseline_off_cmd": BASE,
        "source_commits": [],
        "add_only": True,
    },
    "engines": [{"name": "tlc", "path": "harness/tlc.py", "serves_properties": sorted(CLAIMED), "kind_free_text": "TLC 1.8.0 explicit-state model checker: design checks of spec/*.tla, scenario generation, and validation of traces recorded from the real gwf"}],
    "checks": checks,
    "not_applicable": na,
    "notes": "Every check = TLC design check of the TLA+ specification + TLC-generated scenarios driven through the real gwf + TLC validation of the recorded observations against the same specification. Fixed defects and open findings: known_findings.json.",
}
#if not na:
#    del m["not_applicable"]
json.dump(m, open(os.path.join(HERE, "MANIFEST.json"), "w"), indent=1)
import subprocess
sys.exit(subprocess.call(["python3-vt", "-c", "import json,jsonschema; jsonschema.validate(json.load(open(\"%s/MANIFEST.json\")), json.load(open(\"/root/.vp/MANIFEST.schema.json\"))); print(\"MANIFEST ok\")" % HERE]))
