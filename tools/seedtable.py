#!/venv/bin/python
"""Render the table of seeded changes (seeded/*/meta.json + first paragraph of NOTES) into DESIGN.md section 11."""
import glob, json, os, re
V = os.path.dirname(os.path.dirname(os.path.abspath(__file__)))
rows = []
for m in sorted(glob.glob(V + "/seeded/*/meta.json")):
    d = json.load(open(m))
    notes = ""
    p = os.path.join(os.path.dirname(m), "SUMMARY.txt")
    if os.path.exists(p):
        notes = open(p).read().strip().replace("\n", " ")
    caught = [c + (" (" + "; ".join(sorted({x for cl in r["clauses"] for x in cl.split(",")}))[:120] + ")" if r["clauses"] else "") for c, r in d["checks"].items() if r["caught"]]
    missed = [c for c, r in d["checks"].items() if not r["caught"]]
    rows.append("| %s | %s | %s | %s | %s |" % (d["seed"], d["property"], notes, "<br>".join(caught) or "-", ", ".join(missed) or "-"))
table = "| seed | property | change and what it needs to manifest | caught by (clauses) | run but not flagged |\n|---|---|---|---|---|\n" + "\n".join(rows)
path = V + "/DESIGN.md"
s = open(path).read()
head = s.split("## 11. Seeded changes")[0]
intro = open(V + "/tools/section11.md").read()
open(path, "w").write(head + "## 11. Seeded changes\n\n" + intro + "\n\n" + table + "\n")
print(len(rows), "rows")
