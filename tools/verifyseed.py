#!/venv/bin/python
"""usage: tools/verifyseed.py <worktree> <seed-id> <property> <check> [<check> ...]
Confirm a seeded change (patch applied in <worktree>, artefacts in <worktree>/_seed): the repository's tests
pass with it, its demonstration fails with it and passes without it; then run the named quick checks
against the changed tree; store everything under /verif/seeded/<seed-id>/."""
import json
import os
import re
import shutil
import subprocess
import sys

wt, sid, prop, checks = sys.argv[1], sys.argv[2], sys.argv[3], sys.argv[4:]
V = os.path.dirname(os.path.dirname(os.path.abspath(__file__)))
env = dict(os.environ, PYTHONPATH=wt + "/src")


def sh(cmd, **kw):
    return subprocess.run(cmd, shell=True, cwd=wt, env=env, stdout=subprocess.PIPE, stderr=subprocess.STDOUT, text=True, **kw)


patch = open(wt + "/_seed/patch.diff").read()
cur = sh("git diff -- src").stdout
if cur.strip() != patch.strip():
    print("WARNING: worktree diff differs from _seed/patch.diff")
tests = sh("/venv/bin/python -m pytest -q -p no:cacheprovider --timeout=900 2>&1 | tail -1").stdout.strip()
demo_with = sh("/venv/bin/python _seed/demo.py", timeout=600)
# (git stash is shared between worktrees: revert and re-apply the patch file instead)
sh("git apply -R _seed/patch.diff")
try:
    demo_without = sh("/venv/bin/python _seed/demo.py", timeout=600)
finally:
    sh("git apply _seed/patch.diff")
ok = "76 passed" in tests and demo_with.returncode == 1 and demo_without.returncode == 0
print("tests:", tests, "| demo with:", demo_with.returncode, "| without:", demo_without.returncode, "| confirmed:", ok)
results = {}
for c in checks:
    p = subprocess.run([V + "/tools/tryseed", wt, c], stdout=subprocess.PIPE, stderr=subprocess.STDOUT, text=True)
    out = p.stdout
    caught = "VIOLATION property=%s" % c in out
    clauses = sorted(set(re.findall(r"clauses=(\S+)", out)))
    results[c] = {"caught": caught, "clauses": clauses, "machinery_failure": "MACHINERY" in out}
    print(c, "CAUGHT" if caught else "missed", clauses[:4], "MACHINERY-FAILURE" if "MACHINERY" in out else "")
d = os.path.join(V, "seeded", sid)
os.makedirs(d, exist_ok=True)
shutil.copy(wt + "/_seed/patch.diff", d + "/patch.diff")
shutil.copy(wt + "/_seed/demo.py", d + "/demo.py")
if os.path.exists(wt + "/_seed/NOTES.md"):
    shutil.copy(wt + "/_seed/NOTES.md", d + "/NOTES.md")
meta = {
    "seed": sid, "property": prop, "confirmed": ok,
    "repo_tests_with_change": tests,
    "demo": {"with_change_exit": demo_with.returncode, "without_change_exit": demo_without.returncode,
             "with_change_output_tail": demo_with.stdout[-600:]},
    "needs_to_manifest": "see NOTES.md",
    "ran": ["PYTHONPATH=<worktree>/src pytest (repository suite)", "demo.py with and without the change"] + ["tools/tryseed <worktree> %s" % c for c in checks],
    "checks": results,
}
json.dump(meta, open(d + "/meta.json", "w"), indent=1)
